---------------------------- MODULE SoyLexProto ----------------------------
(***************************************************************************)
(* The channel protocol between one scanner goroutine of robfig/soy and    *)
(* the parser, as the hook events of the real code show it:                *)
(*   step    the run loop is about to call a state function                *)
(*   emit c  an item of class c is about to be sent (logged BEFORE the      *)
(*           send, so it can precede the next event of the previous item)  *)
(*   next c  the parser's next()/peek() received an item (logged AFTER the  *)
(*           receive); c = "Zero" is the receive on the closed channel      *)
(*   close   the channel is about to be closed                             *)
(*   return  the parse entry point returns (after recover and drain)       *)
(* Item classes are strings; "EOF" and "Error" are the scanner's last      *)
(* items.  The operators are used by SoyLexParse (its actions must be      *)
(* allowed: ProtoRefined) and by SoyLexParseTrace (recorded real traces).   *)
(***************************************************************************)
EXTENDS Naturals, Sequences

CONSTANTS Skew,       \* emit events that may be logged ahead of their next event
          ZeroBound   \* receives on the closed channel a parser may make

Terminal == {"EOF", "Error"}

(***************************************************************************)
(*   ph      run | term (last item logged) | closed                         *)
(*   infl    items logged by emit and not yet by next                       *)
(*   drained an item was sent while Skew items were unreceived: someone    *)
(*           other than the parser's next() is receiving (drain)           *)
(*   zeros   receives on the closed channel                                 *)
(***************************************************************************)
PInit == [ph |-> "run", infl |-> <<>>, drained |-> FALSE, zeros |-> 0]
PCanStep(p)  == p.ph = "run"
PCanEmit(p)  == p.ph = "run"
PEmit(p, c)  ==
  LET over == p.drained \/ Len(p.infl) >= Skew IN
  [p EXCEPT !.ph = IF c \in Terminal THEN "term" ELSE "run",
            !.infl = IF over THEN <<>> ELSE Append(p.infl, c),
            !.drained = over]
PCanNext(p, c) ==
  /\ ~p.drained
  /\ IF p.infl # <<>> THEN c = Head(p.infl)
     ELSE c = "Zero" /\ p.ph = "closed" /\ p.zeros < ZeroBound
PNext(p, c)  == IF p.infl # <<>> THEN [p EXCEPT !.infl = Tail(p.infl)]
                ELSE [p EXCEPT !.zeros = IF p.zeros > ZeroBound THEN p.zeros ELSE p.zeros + 1]
PCanClose(p) == p.ph = "term"
PClose(p)    == [p EXCEPT !.ph = "closed"]
\* the scanner can no longer block: closed, or its last item has been received
PCanReturn(p) == p.ph = "closed" \/ (p.ph = "term" /\ p.infl = <<>> /\ ~p.drained)
=============================================================================
