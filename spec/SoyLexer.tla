------------------------------ MODULE SoyLexer ------------------------------
(***************************************************************************)
(* Implementation-shaped automaton of the robfig/soy scanner               *)
(* (parse/lexer.go) at the granularity (control point x character class).  *)
(*                                                                         *)
(* The INPUT IS CHOSEN LAZILY: every time the scanner calls next() the     *)
(* environment answers with a character class or with EOF; once it has     *)
(* answered EOF it answers EOF for ever (next() at end of input does not    *)
(* move).  Characters the scanner un-reads (backup, peek, pos--) are kept   *)
(* in the push-back buffer pb and are answered again before the            *)
(* environment is asked.  The state space is finite, so TLC decides the     *)
(* termination properties for inputs of EVERY length.                       *)
(*                                                                         *)
(* fn is the state function the run loop called (what the "step" hook of   *)
(* the real code shows); pc is the control point inside it (every loop     *)
(* that scans to a delimiter is a control point of its own that must       *)
(* handle EOF); f1/f2 are the local flags of the function.                 *)
(*                                                                         *)
(* Dev is the set of named deviations.  Dev = {} is the reference design   *)
(* (every scan loop leaves on EOF); each name switches one control point   *)
(* to what a defective scanner does.                                       *)
(***************************************************************************)
EXTENDS Naturals, Sequences, TLC

CONSTANT Dev,      \* set of deviation names
         Modes,    \* entry points explored: subset of {"file", "expr"}
         KeepHist, \* record hist (only in runs with the VIEW; never with liveness)
         Ghost     \* maintain the per-invocation bookkeeping (first, net, emi, lastret)

DevNames == {"css_no_eof", "hdrparam_no_eof", "string_no_eof",
             "blockcomment_no_eof", "soydoc_no_eof", "literal_no_eof",
             "soydocparam_eof_underflow", "begintag_self", "neg_unicode_digit", "literal_close_mismatch"}

Classes == {"lb", "rb", "sl", "st", "bs", "sp", "nl", "dol", "dot", "q",
            "lbk", "rbk", "min", "dig", "dq", "sq", "eq", "pipe", "com",
            "col", "lp", "rp", "at", "cmp", "ar", "let", "ulet", "udig", "usp", "oth"}
\* The scanner tests characters in two ways: ASCII ranges (isSpace, isDigit,
\* isLetterOrUnderscore, r >= '0' && r <= '9') and Unicode categories
\* (isAlphaNumeric = unicode.IsLetter/IsDigit, allSpaceWithNewline =
\* unicode.IsSpace).  The NON-ASCII members of the Unicode categories are
\* classes of their own: ulet (letter), udig (decimal digit, Nd), usp (space,
\* Zs): they are several bytes wide and fall on different sides of the two
\* kinds of test.
SpaceEOL == {"sp", "nl"}
Alnum    == {"let", "dig", "ulet", "udig"}

VARIABLES
  mode,    \* "file" (lex: starts in lexText) | "expr" (lexExpr: lexInsideTag)
  fn,      \* state function in progress
  pc,      \* control point
  f1, f2,  \* local flags of the function in progress
  dd,      \* doubleDelim
  lo,      \* the last emitted item ends an operand (lexNegative)
  pb,      \* push-back buffer (classes un-read by the scanner)
  ended,   \* the environment has answered EOF
  fin,     \* "" | "eof" | "error" | "crash"
  last,    \* the last step read EOF
  tick,    \* flips at every step (makes a spin a real cycle)
  first,   \* first class read by the current invocation of fn ("" none)
  net,     \* characters consumed by the current invocation (0..2, saturating)
  emi,     \* the current invocation emitted an item
  lastret, \* summary of the last return of a state function
  hist     \* classes answered by the environment and spelling markers
           \* (history only: hidden by the VIEW)

vars == <<mode, fn, pc, f1, f2, dd, lo, pb, ended, fin, last, tick, first, net, emi, lastret, hist>>
View == <<mode, fn, pc, f1, f2, dd, lo, pb, ended, fin, last, tick, first, net, emi, lastret>>

NoRet == [from |-> "", to |-> "", first |-> "", net |-> 0, emi |-> FALSE]

(***************************************************************************)
(* An outcome of reading one class at a control point.                     *)
(*   pc      next control point                                             *)
(*   pb      classes pushed back (in the order they will be read again)     *)
(*   em      an item is emitted                                             *)
(*   ret     "" or the state function returned to the run loop              *)
(*   fin     "" or how the scan ends                                        *)
(*   f1,f2,dd,lo   new flag values, "k" = keep                              *)
(*   mkb,mka spelling markers for the concretiser (before/after the class)  *)
(***************************************************************************)
O(p) == [pc |-> p, pb |-> <<>>, em |-> FALSE, ret |-> "", fin |-> "",
         f1 |-> "k", f2 |-> "k", dd |-> "k", lo |-> "k", mkb |-> "", mka |-> ""]

Entry(f) ==  \* control point and local flags a state function starts with
  CASE f = "Text"          -> <<"T", "z", "0">>
    [] f = "LeftDelim"     -> <<"LD", "", "">>
    [] f = "BeginTag"      -> <<"BT", "", "">>
    [] f = "InsideTag"     -> <<"IT", "", "">>
    [] f = "Ident"         -> <<"ID", "", "">>
    [] f = "Number"        -> <<"NUM", "", "">>
    [] f = "StringDq"      -> <<"STR", "dq", "">>
    [] f = "StringSq"      -> <<"STR", "sq", "">>
    [] f = "RightDelim"    -> <<"RD", "", "">>
    [] f = "RightDelimEnd" -> <<"RDE", "", "">>
    [] f = "HeaderParam"   -> <<"HP", "", "">>
    [] f = "Css"           -> <<"CSS", "", "">>
    [] f = "Literal"       -> <<"LIT", "", "">>

Ret(f) == [O(Entry(f)[1]) EXCEPT !.ret = f, !.f1 = Entry(f)[2], !.f2 = Entry(f)[3]]
Err    == [O("END") EXCEPT !.fin = "error", !.em = TRUE]   \* errorf sends an error item
Emit(o, operand) == [o EXCEPT !.em = TRUE, !.lo = IF operand THEN "T" ELSE "F"]
Back(o, s) == [o EXCEPT !.pb = s]

\* maybeEmitText: pending text is emitted, or dropped when it is all
\* whitespace with a newline; nothing happens when nothing is pending.
MaybeText(o) == IF f2 = "1" THEN {Emit(o, FALSE), o} ELSE {o}

(***************************************************************************)
(* The transition relation, one operator per state function.               *)
(***************************************************************************)
TrText(c) ==
  CASE pc = "T" ->
         CASE c = "sl"  -> {O("T_sl")}
           [] c = "lb"  -> MaybeText(Back(Ret("LeftDelim"), <<"lb">>))
           [] c = "rb"  -> {Err}
           [] c = "EOF" -> {[O("END") EXCEPT !.fin = "eof", !.em = TRUE]}
           [] OTHER     -> {[O("T") EXCEPT !.f1 = IF c \in SpaceEOL THEN "s" ELSE "o", !.f2 = "1"]}
    [] pc = "T_sl" ->
         CASE c = "sl" ->
                (IF f1 \in {"z", "s"} THEN MaybeText(O("LC")) ELSE {})
                \cup (IF f1 \in {"z", "o"} THEN {[Back(O("T"), <<"sl">>) EXCEPT !.f1 = "o", !.f2 = "1"]} ELSE {})
           [] c = "st" -> MaybeText(O("T_st"))
           [] OTHER    -> {[Back(O("T"), <<c>>) EXCEPT !.f1 = "o", !.f2 = "1"]}
    [] pc = "T_st" ->
         IF c = "st" THEN {[Emit(O("SD"), FALSE) EXCEPT !.f1 = "0", !.f2 = "1"]}   \* /** : soydoc start
         ELSE {[Back(O("BC"), <<c>>) EXCEPT !.f1 = "0"]}
    [] pc = "LC" ->   \* lexLineComment
         IF c \in {"nl", "EOF"} THEN {Emit(Ret("Text"), FALSE)} ELSE {O("LC")}
    [] pc = "BC" ->   \* lexBlockComment, f1 = star seen
         CASE c = "EOF" -> IF "blockcomment_no_eof" \in Dev THEN {[O("BC") EXCEPT !.f1 = "0"]} ELSE {Err}
           [] c = "st"  -> {[O("BC") EXCEPT !.f1 = "1"]}
           [] c = "sl" /\ f1 = "1" -> {Emit(Ret("Text"), FALSE)}
           [] OTHER     -> {[O("BC") EXCEPT !.f1 = "0"]}
    [] pc = "SD" ->   \* lexSoyDoc, f1 = star seen, f2 = at start of line
         CASE c = "EOF" -> IF "soydoc_no_eof" \in Dev THEN {O("SD")} ELSE {Err}
           [] f1 = "1" /\ c = "sl" -> {Emit(Ret("Text"), FALSE)}
           [] f2 = "1" /\ c \in SpaceEOL -> {O("SD")}
           [] f2 = "1" /\ c = "st" -> {[O("SD") EXCEPT !.f1 = "1"]}
           [] f2 = "1" ->   \* pos--: the character is read again with startOfLine off
                {[Back(O("SD"), <<c>>) EXCEPT !.f1 = "0", !.f2 = "0"]}
                \cup (IF c = "at" THEN {[O("SDP") EXCEPT !.f1 = "0", !.f2 = "0", !.mka = "#param"]} ELSE {})
           [] c = "nl" -> {[o EXCEPT !.f1 = "0", !.f2 = "1"] : o \in {Emit(O("SD"), FALSE), O("SD")}}
           [] OTHER    -> {[O("SD") EXCEPT !.f1 = IF c = "st" THEN "1" ELSE "0"]}
    [] pc = "SDP" ->  \* lexSoyDocParam: "@param" skipped, c is what follows
         CASE c = "q"  -> {O("SDP_q")}
           [] c = "sp" -> {Emit(Back(O("SDP_sk"), <<"sp">>), FALSE)}
           [] OTHER    -> {[O("SD") EXCEPT !.f1 = "0", !.f2 = "0"]}     \* "what a fakeout"
    [] pc = "SDP_q" ->
         IF c = "sp" THEN {Emit(Back(O("SDP_sk"), <<"sp">>), FALSE)}
         ELSE {[O("SD") EXCEPT !.f1 = "0", !.f2 = "0"]}
    [] pc = "SDP_sk" -> \* skip spaces
         IF c = "sp" THEN {O("SDP_sk")} ELSE {[Back(O("SDP_id"), <<c>>) EXCEPT !.f1 = "0"]}
    [] pc = "SDP_id" -> \* the parameter name, f1 = a character of it was read
         IF c \in SpaceEOL \cup {"EOF"}
         THEN IF c = "EOF" /\ f1 = "0" /\ "soydocparam_eof_underflow" \in Dev
              THEN {[O("END") EXCEPT !.fin = "crash"]}    \* pos-- below start: slice bounds panic
              ELSE {[Emit(Back(O("SD"), IF c = "nl" THEN <<"nl">> ELSE <<>>), TRUE) EXCEPT !.f1 = "0", !.f2 = "0"]}
         ELSE {[O("SDP_id") EXCEPT !.f1 = "1"]}

TrTag(c) ==
  CASE pc = "LD"  -> {O("LD2")}      \* the "{" pushed back by lexText
    [] pc = "LD2" ->
         IF c = "lb" THEN {[Emit(Ret("BeginTag"), FALSE) EXCEPT !.dd = "T"]}
         ELSE {[Emit(Back(Ret("BeginTag"), <<c>>), FALSE) EXCEPT !.dd = "F"]}
    [] pc = "BT" ->                   \* peek only
         IF "begintag_self" \in Dev /\ c = "oth" THEN {Back(Ret("BeginTag"), <<c>>)}
         ELSE IF c \in {"sl", "bs"} THEN {Back(Ret("Ident"), <<c>>)} ELSE {Back(Ret("InsideTag"), <<c>>)}
    [] pc = "IT" ->
         CASE c \in SpaceEOL -> {Ret("InsideTag")}
           [] c = "sl"  -> {O("IT_sl")}
           [] c \in {"dol", "dot", "let"} -> {Back(Ret("Ident"), <<c>>)}
           [] c = "lbk" -> {Emit(Ret("InsideTag"), FALSE)}
           [] c = "rbk" -> {Emit(Ret("InsideTag"), TRUE)}
           [] c = "q"   -> {O("IT_q")}
           [] c = "min" -> IF lo THEN {Emit(Ret("InsideTag"), FALSE)} ELSE {O("IT_neg")}
           [] c = "rb"  -> {Ret("RightDelim")}
           [] c = "dig" -> {Back(Ret("Number"), <<"dig">>)}
           [] c \in {"st", "ar", "col", "lp", "pipe", "com"} -> {Emit(Ret("InsideTag"), FALSE)}
           [] c = "rp"  -> {Emit(Ret("InsideTag"), TRUE)}
           [] c = "cmp" -> {O("IT_cmp")}
           [] c = "eq"  -> {O("IT_eq")}
           [] c = "dq"  -> {Ret("StringDq")}
           [] c = "sq"  -> {Ret("StringSq")}
           [] c = "at"  -> {Ret("HeaderParam")}
           [] OTHER     -> {Err}    \* EOF: unclosed tag; bs lb ulet oth: unrecognized character
    [] pc = "IT_sl" ->
         IF c = "rb" THEN {Back(Ret("RightDelimEnd"), <<"rb">>)}
         ELSE {Emit(Back(Ret("InsideTag"), <<c>>), FALSE)}
    [] pc = "IT_q" ->
         CASE c = "dot" -> {Back(Ret("Ident"), <<"q", "dot">>)}
           [] c \in {"lbk", "col"} -> {Emit(Ret("InsideTag"), FALSE)}
           [] OTHER -> {Emit(Back(Ret("InsideTag"), <<c>>), FALSE)}
    [] pc = "IT_neg" ->
         IF c = "dig" THEN {Back(Ret("Number"), <<"min", "dig">>)}
         ELSE IF c = "udig" /\ "neg_unicode_digit" \in Dev
              \* unicode.IsDigit(peek()) then backup(): the width of the peeked
              \* multi-byte digit is subtracted instead of the width of "-":
              \* pos < start, the next slice of the input panics
              THEN {[O("END") EXCEPT !.fin = "crash"]}
         ELSE {Emit(Back(Ret("InsideTag"), <<c>>), FALSE)}
    [] pc = "IT_cmp" ->
         IF c = "eq" THEN {Emit(Ret("InsideTag"), FALSE)}
         ELSE {Emit(Back(Ret("InsideTag"), <<c>>), FALSE), Err}     \* "!" alone: unexpected symbol
    [] pc = "IT_eq" ->
         IF c = "eq" THEN {Emit(Ret("InsideTag"), FALSE)}
         ELSE {Emit(Back(Ret("InsideTag"), <<c>>), FALSE)}
    [] pc = "RD" ->                   \* lexRightDelim reads only under double braces
         IF dd THEN (IF c = "rb" THEN {Emit(Ret("Text"), FALSE)} ELSE {Err})
         ELSE {Emit(Back(Ret("Text"), <<c>>), FALSE)}
    [] pc = "RDE" -> IF dd THEN {O("RDE2")} ELSE {Emit(Ret("Text"), FALSE)}   \* the "}" pushed back
    [] pc = "RDE2" -> IF c = "rb" THEN {Emit(Ret("Text"), FALSE)} ELSE {Err}
    [] pc = "STR" ->                  \* stringLexer, f1 = the quote class
         CASE c = "EOF" -> IF "string_no_eof" \in Dev THEN {O("STR")} ELSE {Err}
           [] c = "bs"  -> {O("STR_esc")}
           [] c = f1    -> {Emit(Ret("InsideTag"), TRUE)}
           [] OTHER     -> {O("STR")}
    [] pc = "STR_esc" -> {O("STR")}

TrIdent(c) ==
  CASE pc = "ID" ->
         CASE c = "dot" -> {[O("ID_dot") EXCEPT !.f1 = "$"]}       \* f1 = "$": not a keyword
           [] c \in {"sl", "bs"} -> {[O("ID_abs") EXCEPT !.f1 = "/"]}  \* f1 = "/": closing or special command
           [] c = "q"   -> {[O("ID_q") EXCEPT !.f1 = "$"]}
           [] c = "dol" -> {[O("ID_abs") EXCEPT !.f1 = "$"]}
           [] OTHER     -> {O("ID_abs")}
    [] pc = "ID_dot" -> {Back(O("ID_abs"), <<c>>)}
    [] pc = "ID_q"   -> IF c = "dot" THEN {O("ID_dot")} ELSE {Err}
    [] pc = "ID_abs" ->
         IF c \in Alnum THEN {O("ID_abs")}
         ELSE IF f1 = "/"
              THEN {[Emit(Back(Ret("InsideTag"), <<c>>), FALSE) EXCEPT !.mkb = "#endcmd"], Err}
              ELSE IF f1 = "$" THEN {Emit(Back(Ret("InsideTag"), <<c>>), TRUE)}
              ELSE {Emit(Back(Ret("InsideTag"), <<c>>), TRUE),
                    [Emit(Back(Ret("InsideTag"), <<c>>), FALSE) EXCEPT !.mkb = "#cmd"],
                    [Emit(Back(Ret("Literal"), <<c>>), FALSE) EXCEPT !.mkb = "#literal"],
                    [Emit(Back(Ret("Css"), <<c>>), FALSE) EXCEPT !.mkb = "#css"]}
    [] pc = "NUM"   -> {O("NUM_b")}  \* first character ("-" or digit) pushed back by the caller
    [] pc = "NUM_b" ->
         LET stop == {Emit(Back(Ret("InsideTag"), <<c>>), TRUE), Err} IN
         IF c \in {"dig", "let", "dot", "min", "ar"} THEN {O("NUM_b")} \cup stop ELSE stop

TrSpecial(c) ==
  CASE pc = "HP" ->                   \* HasPrefix(input, "param") decided before reading
         {Back(Err, <<c>>)}
         \cup (IF c = "q" THEN {[Emit(O("HP_s1"), FALSE) EXCEPT !.mkb = "#param"]}
               ELSE {[Emit(Back(O("HP_s1"), <<c>>), FALSE) EXCEPT !.mkb = "#param"]})
    [] pc \in {"HP_s1", "HP_s2", "HP_s3", "HP_s4"} ->       \* skipSpace
         IF c \in SpaceEOL THEN {O(pc)}
         ELSE (CASE pc = "HP_s1" -> {Back(O("HP_id"), <<c>>)}
                 [] pc = "HP_s2" -> {Back(O("HP_col"), <<c>>)}
                 [] pc = "HP_s3" -> {Back(O("HP_ty"), <<c>>)}
                 [] OTHER        -> {Back(Ret("InsideTag"), <<c>>)})
    [] pc = "HP_id" -> IF c \in Alnum THEN {O("HP_id")} ELSE {Emit(Back(O("HP_s2"), <<c>>), TRUE)}
    [] pc = "HP_col" -> IF c = "col" THEN {Emit(O("HP_s3"), FALSE)} ELSE {Err}
    [] pc = "HP_ty" ->                \* scan the type up to "=" or "}"
         CASE c \in {"eq", "rb"} -> {Emit(Back(O("HP_s4"), <<c>>), FALSE)}
           [] c = "EOF" -> IF "hdrparam_no_eof" \in Dev THEN {O("HP_ty")} ELSE {Err}
           [] OTHER -> {O("HP_ty")}
    [] pc = "CSS" -> {O("CSS_b")}     \* one character skipped whatever it is
    [] pc = "CSS_b" ->                \* scan the body up to "}"
         CASE c = "rb"  -> IF dd THEN {Emit(O("CSS_dd"), FALSE)} ELSE {Emit(Ret("Text"), FALSE)}
           [] c = "EOF" -> IF "css_no_eof" \in Dev THEN {O("CSS_b")} ELSE {Err}
           [] OTHER -> {O("CSS_b")}
    [] pc = "CSS_dd" -> IF c = "rb" THEN {Emit(Ret("Text"), FALSE)} ELSE {Err}
    [] pc = "LIT" ->
         CASE c = "sp" -> {O("LIT")}
           [] c = "rb" -> IF dd THEN {O("LIT_dd")} ELSE {[Emit(O("LIT_b"), FALSE) EXCEPT !.f1 = "0"]}
           [] OTHER -> {Err}
    [] pc = "LIT_dd" -> IF c = "rb" THEN {[Emit(O("LIT_b"), FALSE) EXCEPT !.f1 = "0"]} ELSE {Err}
    [] pc = "LIT_b" ->
         \* strings.Index for the closing tag OF THE SAME BRACE FORM as the opening
         \* tag ({/literal} or {{/literal}}); f1 = "0" while the body is empty.
         \* Before each character the environment may place (a) the right closer,
         \* (b) the closer of the OTHER form: under single braces "{{/literal}}"
         \* contains the right closer and ends the block; under double braces
         \* "{/literal}" is body text.
         (IF c = "EOF" THEN (IF "literal_no_eof" \in Dev THEN {O("LIT_b")} ELSE {Err})
          ELSE {[O("LIT_b") EXCEPT !.f1 = "1"]})
         \cup {[Emit(Back(Ret("Text"), <<c>>), FALSE) EXCEPT !.mkb = "#litend"]}
         \cup (IF ~dd THEN {[Emit(Back(Ret("Text"), <<c>>), FALSE) EXCEPT !.mkb = "#litother"]}
               ELSE IF "literal_close_mismatch" \in Dev
               \* the search looks for "{/literal}" only and steps one byte back for the
               \* second brace: with an empty body that is before the body -> slice panic;
               \* otherwise the block is (wrongly) closed
               THEN (IF f1 = "0" THEN {[O("END") EXCEPT !.fin = "crash", !.mkb = "#litother"]}
                     ELSE {[Emit(Back(Ret("Text"), <<c>>), FALSE) EXCEPT !.mkb = "#litother"]})
               ELSE IF c = "EOF" THEN {[Err EXCEPT !.mkb = "#litother"]}
               ELSE {[O("LIT_b") EXCEPT !.f1 = "1", !.mkb = "#litother"]})

Tr(c) ==
  CASE pc \in {"T", "T_sl", "T_st", "LC", "BC", "SD", "SDP", "SDP_q", "SDP_sk", "SDP_id"} -> TrText(c)
    [] pc \in {"LD", "LD2", "BT", "IT", "IT_sl", "IT_q", "IT_neg", "IT_cmp", "IT_eq",
               "RD", "RDE", "RDE2", "STR", "STR_esc"} -> TrTag(c)
    [] pc \in {"ID", "ID_dot", "ID_q", "ID_abs", "NUM", "NUM_b"} -> TrIdent(c)
    [] OTHER -> TrSpecial(c)

(***************************************************************************)
(* State machine                                                           *)
(***************************************************************************)
Init ==
  /\ mode \in Modes
  /\ fn = IF mode = "file" THEN "Text" ELSE "InsideTag"
  /\ pc = Entry(fn)[1] /\ f1 = Entry(fn)[2] /\ f2 = Entry(fn)[3]
  /\ dd = FALSE /\ lo = FALSE /\ pb = <<>> /\ ended = FALSE /\ fin = ""
  /\ last = FALSE /\ tick = FALSE /\ first = "" /\ net = 0 /\ emi = FALSE
  /\ lastret = NoRet /\ hist = <<>>

Keep(new, old) == IF new = "k" THEN old ELSE new
KeepB(new, old) == IF new = "k" THEN old ELSE new = "T"
NoEOF(s) == SelectSeq(s, LAMBDA x : x # "EOF")
Min(a, b) == IF a < b THEN a ELSE b
Sat(n) == IF n < 0 THEN 0 ELSE Min(n, 2)

Apply(c, fromEnv, o) ==
  LET pushed == NoEOF(o.pb)
      n1 == Sat(net + (IF c = "EOF" THEN 0 ELSE 1) - Len(pushed))
      fst == IF first = "" THEN c ELSE first
      e1 == emi \/ o.em
  IN
  /\ last' = (c = "EOF") /\ tick' = ~tick
  /\ ended' = (ended \/ (fromEnv /\ c = "EOF"))
  /\ pb' = pushed \o (IF fromEnv THEN <<>> ELSE Tail(pb))
  /\ pc' = o.pc /\ f1' = Keep(o.f1, f1) /\ f2' = Keep(o.f2, f2)
  /\ dd' = KeepB(o.dd, dd) /\ lo' = KeepB(o.lo, lo)
  /\ fin' = o.fin
  /\ hist' = IF ~KeepHist THEN hist ELSE
             hist \o (IF o.mkb # "" THEN <<o.mkb>> ELSE <<>>)
                  \o (IF fromEnv /\ c # "EOF" THEN <<c>> ELSE <<>>)
                  \o (IF o.mka # "" THEN <<o.mka>> ELSE <<>>)
  /\ fn' = IF o.ret # "" THEN o.ret ELSE fn
  /\ IF ~Ghost THEN UNCHANGED <<first, net, emi, lastret>>
     ELSE IF o.ret # "" \/ o.fin # ""
     THEN /\ lastret' = [from |-> fn, to |-> IF o.fin # "" THEN "END-" \o o.fin ELSE o.ret,
                         first |-> fst, net |-> n1, emi |-> e1]
          /\ first' = "" /\ net' = 0 /\ emi' = FALSE
     ELSE /\ lastret' = NoRet /\ first' = fst /\ net' = n1 /\ emi' = e1
  /\ UNCHANGED mode

Step ==
  /\ fin = ""
  /\ IF pb # <<>>
     THEN \E o \in Tr(Head(pb)) : Apply(Head(pb), FALSE, o)
     ELSE \E c \in (IF ended THEN {"EOF"} ELSE Classes \cup {"EOF"}) :
            \E o \in Tr(c) : Apply(c, TRUE, o)

Done == fin # "" /\ UNCHANGED vars
Next == Step \/ Done
Spec == Init /\ [][Next]_vars /\ WF_vars(Step)

(***************************************************************************)
(* Properties                                                              *)
(***************************************************************************)
TypeOK ==
  /\ fin \in {"", "eof", "error", "crash"}
  /\ Len(pb) <= 2
  /\ net \in 0..2

\* A state function never returns to the run loop without having consumed a
\* character or emitted an item, unless it hands over to a function of
\* strictly lower rank (lexText -> lexLeftDelim -> lexBeginTag -> lexInsideTag
\* -> lexIdent/lexNumber, which always consume).
Rank(f) ==
  CASE f = "Text" -> 6 [] f = "LeftDelim" -> 5 [] f = "BeginTag" -> 4
    [] f = "InsideTag" -> 3 [] f \in {"RightDelim", "RightDelimEnd"} -> 2
    [] OTHER -> 1
Progress ==
  lastret.from # "" /\ lastret.to \notin {"END-eof", "END-error", "END-crash"}
    => lastret.net > 0 \/ lastret.emi \/ Rank(lastret.to) < Rank(lastret.from)

\* No control point stays where it is when it reads EOF.
NoSpin == [][~(last' /\ fin' = "" /\ pc' = pc /\ f1' = f1 /\ f2' = f2 /\ pb' = pb)]_vars

\* The scanner goroutine never panics.
NoCrash == fin # "crash"

\* Every finite input is scanned to the end: once the environment has
\* answered EOF the scanner finishes (with the EOF item or an error item).
Terminates == ended ~> (fin # "")

(***************************************************************************)
(* Enumeration for the binding (never false)                                *)
(*   PATH: for every reachable control state that is about to ask the       *)
(*         environment, the (breadth-first, hence shortest) sequence of      *)
(*         classes and spelling markers that reaches it;                     *)
(*   EDGE: every (function, first class, next function) return.              *)
(***************************************************************************)
RECURSIVE Join(_)
Join(s) == IF s = <<>> THEN "" ELSE IF Len(s) = 1 THEN s[1] ELSE s[1] \o " " \o Join(Tail(s))

PathView == <<mode, fn, pc, f1, f2, dd, lo, pb, ended, fin>>
PathReport == (fin = "" /\ pb = <<>> /\ ~ended) =>
  PrintT("PATH|" \o mode \o "|" \o pc \o "|" \o f1 \o "|" \o f2 \o "|" \o Join(hist))
EdgeView == <<mode, fn, pc, f1, f2, dd, lo, pb, ended, fin, first, lastret.from, lastret.first, lastret.to>>
EdgeReport == lastret.from # "" =>
  PrintT("EDGE|" \o mode \o "|" \o lastret.from \o "|" \o lastret.first \o "|" \o lastret.to)
\* view for runs that need hist AND the spin detection (NoSpin looks at last and tick)
SpinView == <<mode, fn, pc, f1, f2, dd, lo, pb, ended, fin, last, tick>>
=============================================================================
