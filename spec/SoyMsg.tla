------------------------------- MODULE SoyMsg -------------------------------
(***************************************************************************)
(* Messages ({msg}) of the Soy language: what a message body is, how its   *)
(* placeholders are named, its placeholder string and what its id may      *)
(* depend on.  Written from the Soy language definition / the official     *)
(* algorithm (DESIGN.md Appendix A "Placeholders and ids") and from what   *)
(* the repository's tests pin (soymsg/*_test.go); NOT transcribed from     *)
(* soymsg/placeholder.go.                                                  *)
(*                                                                         *)
(* A message body is a SEQUENCE of parts (tagged records):                 *)
(*   [k|->"text",  s]                 raw text                             *)
(*   [k|->"print", e, b]              print placeholder, e = SoyExpr tree  *)
(*   [k|->"tag",   s, b]              html-tag placeholder, s = tag text   *)
(*   [k|->"plural", e, cases, dflt, b] cases: Seq([v, body]), dflt: body   *)
(* (b = the base name, derived from e / s by the constructors below)       *)
(* A plural, if present, is the sole child; case bodies hold no plural.    *)
(* A message is [body, meaning, desc].                                     *)
(*                                                                         *)
(* Everything here is defined over sequences: there is no set or map whose *)
(* iteration order could leak into a name.                                 *)
(*                                                                         *)
(* The 64-bit fingerprint arithmetic is NOT modelled (TLC integers are 32  *)
(* bit; a hash is not a thing to transcribe): MsgFp is an uninterpreted,   *)
(* injective symbol and MsgIdAbs(m) = mix(fp(key), fp(meaning)).           *)
(***************************************************************************)
EXTENDS Integers, Sequences, FiniteSets, TLC

(***************************************************************************)
(* Characters.                                                             *)
(***************************************************************************)
MsgLowerS == "abcdefghijklmnopqrstuvwxyz"
MsgUpperS == "ABCDEFGHIJKLMNOPQRSTUVWXYZ"
MsgDigitS == "0123456789"

MsgCh(s, i) == SubSeq(s, i, i)

\* constant-level tables (TLC evaluates them once)
MsgLowerSet == {MsgCh(MsgLowerS, i) : i \in 1..26}
MsgUpperSet == {MsgCh(MsgUpperS, i) : i \in 1..26}
MsgDigitSet == {MsgCh(MsgDigitS, i) : i \in 1..10}
MsgUpperMap == [ch \in MsgLowerSet |-> MsgCh(MsgUpperS, CHOOSE i \in 1..26 : MsgCh(MsgLowerS, i) = ch)]
MsgLowerMap == [ch \in MsgUpperSet |-> MsgCh(MsgLowerS, CHOOSE i \in 1..26 : MsgCh(MsgUpperS, i) = ch)]

MsgIsLower(ch)  == ch \in MsgLowerSet
MsgIsUpper(ch)  == ch \in MsgUpperSet
MsgIsDigit(ch)  == ch \in MsgDigitSet
MsgIsLetter(ch) == MsgIsLower(ch) \/ MsgIsUpper(ch)
MsgIsAlnum(ch)  == MsgIsLetter(ch) \/ MsgIsDigit(ch)

MsgUpperC(ch) == IF ch \in MsgLowerSet THEN MsgUpperMap[ch] ELSE ch
MsgLowerC(ch) == IF ch \in MsgUpperSet THEN MsgLowerMap[ch] ELSE ch

RECURSIVE MsgLowerFrom(_, _)
MsgLowerFrom(s, i) == IF i > Len(s) THEN "" ELSE MsgLowerC(MsgCh(s, i)) \o MsgLowerFrom(s, i + 1)
MsgToLower(s) == MsgLowerFrom(s, 1)

MsgSuffixStr(s, i) == IF i > Len(s) THEN "" ELSE SubSeq(s, i, Len(s))
MsgPrefixStr(s, n) == IF n <= 0 THEN "" ELSE SubSeq(s, 1, n)
MsgHasPrefix(s, p) == Len(s) >= Len(p) /\ MsgPrefixStr(s, Len(p)) = p
MsgHasSuffix(s, p) == Len(s) >= Len(p) /\ MsgSuffixStr(s, Len(s) - Len(p) + 1) = p

(***************************************************************************)
(* UPPER_UNDERSCORE form of an identifier:                                 *)
(*  - leading and trailing underscores are dropped;                        *)
(*  - an underscore is inserted at every word boundary: between a letter   *)
(*    and an upper-case letter that starts a capitalised word (upper then  *)
(*    lower), between a letter and a digit, between a digit and a letter;  *)
(*  - runs of underscores collapse to one;                                 *)
(*  - the result is upper-cased.                                           *)
(* (booFoo -> BOO_FOO, boo8Foo -> BOO_8_FOO, __BOO__FOO__ -> BOO_FOO; all   *)
(* fourteen vectors of TestToUpperUnderscore satisfy this.)                *)
(* A boundary is a property of a POSITION of the identifier, so boundaries *)
(* that are two characters apart (isOkNow -> IS_OK_NOW) are all found.     *)
(***************************************************************************)
RECURSIVE MsgStripLead(_)
MsgStripLead(s) == IF Len(s) > 0 /\ MsgCh(s, 1) = "_" THEN MsgStripLead(MsgSuffixStr(s, 2)) ELSE s
RECURSIVE MsgStripTrail(_)
MsgStripTrail(s) ==
  IF Len(s) > 0 /\ MsgCh(s, Len(s)) = "_" THEN MsgStripTrail(MsgPrefixStr(s, Len(s) - 1)) ELSE s

MsgWordBoundary(s, i) ==
  /\ i > 1
  /\ LET p == MsgCh(s, i - 1) ch == MsgCh(s, i) IN
     \/ MsgIsLetter(p) /\ MsgIsUpper(ch) /\ i < Len(s) /\ MsgIsLower(MsgCh(s, i + 1))
     \/ MsgIsLetter(p) /\ MsgIsDigit(ch)
     \/ MsgIsDigit(p) /\ MsgIsLetter(ch)

RECURSIVE MsgUUFrom(_, _)
MsgUUFrom(s, i) ==
  IF i > Len(s) THEN ""
  ELSE LET ch == MsgCh(s, i) IN
       IF ch = "_" /\ i > 1 /\ MsgCh(s, i - 1) = "_" THEN MsgUUFrom(s, i + 1)
       ELSE (IF MsgWordBoundary(s, i) THEN "_" ELSE "") \o MsgUpperC(ch) \o MsgUUFrom(s, i + 1)

ToUpperUnderscore(ident) == MsgUUFrom(MsgStripTrail(MsgStripLead(ident)), 1)

\* does the identifier have two word boundaries of the first kind two
\* characters apart (aBcDe)?  Used only to classify findings.
MsgCloseHumps(s) ==
  \E i \in 2..Len(s) : i + 2 <= Len(s) /\
     LET up(j) == MsgIsLetter(MsgCh(s, j - 1)) /\ MsgIsUpper(MsgCh(s, j)) /\ j < Len(s) /\ MsgIsLower(MsgCh(s, j + 1))
     IN up(i) /\ up(i + 2)

(***************************************************************************)
(* Base names.                                                             *)
(***************************************************************************)
RECURSIVE MsgLastDot(_, _)
MsgLastDot(s, i) == IF i < 1 THEN 0 ELSE IF MsgCh(s, i) = "." THEN i ELSE MsgLastDot(s, i - 1)
MsgAfterLastDot(s) == MsgSuffixStr(s, MsgLastDot(s, Len(s)) + 1)

\* variable, or last key of a data reference, or a global's (last) name;
\* anything else gets the default.
MsgExprBase(e, dflt) ==
  IF e.k = "global" THEN ToUpperUnderscore(MsgAfterLastDot(e.name))
  ELSE IF e.k = "var" THEN
         IF Len(e.acc) = 0 THEN ToUpperUnderscore(e.name)
         ELSE LET a == e.acc[Len(e.acc)] IN
              IF a.k = "key" THEN ToUpperUnderscore(a.key) ELSE dflt
  ELSE dflt

MsgTagIsEnd(s)  == MsgHasPrefix(s, "</")
MsgTagIsSelf(s) == ~MsgTagIsEnd(s) /\ MsgHasSuffix(s, "/>")

RECURSIVE MsgAlnumRun(_, _)
MsgAlnumRun(s, i) ==
  IF i <= Len(s) /\ MsgIsAlnum(MsgCh(s, i)) THEN MsgCh(s, i) \o MsgAlnumRun(s, i + 1) ELSE ""

MsgTagName(s) == MsgToLower(MsgAlnumRun(s, IF MsgTagIsEnd(s) THEN 3 ELSE 2))

MsgPrettyTag(n) ==
  CASE n = "a"   -> "link"
    [] n = "br"  -> "break"
    [] n = "b"   -> "bold"
    [] n = "i"   -> "italic"
    [] n = "li"  -> "item"
    [] n = "ol"  -> "ordered_list"
    [] n = "ul"  -> "unordered_list"
    [] n = "p"   -> "paragraph"
    [] n = "img" -> "image"
    [] n = "em"  -> "emphasis"
    [] OTHER     -> n

MsgTagBase(s) ==
  ToUpperUnderscore((IF MsgTagIsEnd(s) THEN "END_" ELSE IF MsgTagIsSelf(s) THEN "" ELSE "START_")
                    \o MsgPrettyTag(MsgTagName(s)))

\* Part constructors.  A placeholder part carries its base name b (derived
\* once, when the part is built; PartBase reads it back).
MText(s)  == [k |-> "text", s |-> s]
MPrint(e) == [k |-> "print", e |-> e, b |-> MsgExprBase(e, "XXX")]
\* a print with print directives: dirs = Seq([name, args: Seq(expr)]).  The
\* directives are part of the placeholder's source (two prints of one
\* expression through different directive lists are different placeholders);
\* the base name comes from the expression alone.
MPrintD(e, dirs) == [k |-> "print", e |-> e, dirs |-> dirs, b |-> MsgExprBase(e, "XXX")]
MDir(name, args) == [name |-> name, args |-> args]
MTag(s)   == [k |-> "tag", s |-> s, b |-> MsgTagBase(s)]
MPlural(e, cases, dflt) ==
  [k |-> "plural", e |-> e, cases |-> cases, dflt |-> dflt, b |-> MsgExprBase(e, "NUM")]
MCase(v, body) == [v |-> v, body |-> body]

PartBase(p) == p.b

(***************************************************************************)
(* The nodes that get a name, in visiting order: the top-level             *)
(* placeholders and plurals first, then the placeholders of the plural's   *)
(* case bodies (cases in order, default last), then those of plurals       *)
(* nested in the cases, and so on (breadth first).                         *)
(***************************************************************************)
MsgIsSubst(p) == p.k \notin {"text", "btext"}
MsgSubstOf(body) == SelectSeq(body, MsgIsSubst)

RECURSIVE MsgFlatCases(_)
MsgFlatCases(cs) ==
  IF cs = <<>> THEN <<>> ELSE MsgSubstOf(Head(cs).body) \o MsgFlatCases(Tail(cs))

\* Breadth first, with a queue, as the official algorithm walks the message:
\* a plural is named when it is taken from the queue and the placeholders (and
\* plurals) of its cases are appended BEHIND everything already queued.  So
\* with nested plurals all nodes of one depth come before any deeper node.
RECURSIVE MsgBFS(_)
MsgBFS(queue) ==
  IF queue = <<>> THEN <<>>
  ELSE LET h == Head(queue) IN
       <<h>> \o MsgBFS(Tail(queue) \o (IF h.k = "plural"
                                         THEN MsgFlatCases(h.cases) \o MsgSubstOf(h.dflt) ELSE <<>>))

\* (what a recursive walk would do instead: a plural's inner nodes right after it)
RECURSIVE MsgDFS(_)
MsgDFS(q) ==
  IF q = <<>> THEN <<>>
  ELSE LET h == Head(q) IN
       <<h>> \o (IF h.k = "plural" THEN MsgDFS(MsgFlatCases(h.cases) \o MsgSubstOf(h.dflt)) ELSE <<>>)
           \o MsgDFS(Tail(q))

\* the parts that get a name, in visiting order
MsgNodeParts(body) == MsgBFS(MsgSubstOf(body))
MsgNodePartsDFS(body) == MsgDFS(MsgSubstOf(body))

\* ... each annotated with its base name: [p |-> part, b |-> base]
MsgNodes(body) ==
  LET ps == MsgNodeParts(body) IN [i \in 1..Len(ps) |-> [p |-> ps[i], b |-> PartBase(ps[i])]]

MsgHasPlural(body) == \E i \in 1..Len(body) : body[i].k = "plural"
\* the plural of a message is its sole child (the parser accepts further
\* plurals inside the cases of a plural; those are named like everything else)
MsgWellFormed(body) == MsgHasPlural(body) => Len(body) = 1
MsgNested(body) ==
  \E i \in 1..Len(body) : body[i].k = "plural" /\
     (MsgHasPlural(body[i].dflt) \/ \E j \in 1..Len(body[i].cases) : MsgHasPlural(body[i].cases[j].body))

(***************************************************************************)
(* The official naming algorithm, over sequences.                          *)
(*  - nodes with the same base name form a group; groups are taken in      *)
(*    order of first appearance;                                           *)
(*  - within a group, nodes with the same source (the same part) are one   *)
(*    placeholder; the representatives are in order of first appearance;   *)
(*  - a group with one representative keeps the base name; a group with    *)
(*    several gets base_1, base_2, ... skipping every base_N that is       *)
(*    itself the base name of a group of this message.                     *)
(***************************************************************************)
MsgSeqHas(q, x) == \E i \in 1..Len(q) : q[i] = x

RECURSIVE MsgDedupeFrom(_, _)
MsgDedupeFrom(q, seen) ==
  IF q = <<>> THEN seen
  ELSE IF MsgSeqHas(seen, Head(q)) THEN MsgDedupeFrom(Tail(q), seen)
  ELSE MsgDedupeFrom(Tail(q), Append(seen, Head(q)))
MsgDedupe(q) == MsgDedupeFrom(q, <<>>)

MsgBaseOrder(nodes) == MsgDedupe([i \in 1..Len(nodes) |-> nodes[i].b])
MsgBaseSet(nodes) == {nodes[i].b : i \in 1..Len(nodes)}
\* representatives (parts) of group b, in order of first appearance
MsgGroupReps(nodes, b) ==
  LET g == SelectSeq(nodes, LAMBDA n : n.b = b) IN MsgDedupe([i \in 1..Len(g) |-> g[i].p])
MsgPosIn(x, q) == CHOOSE i \in 1..Len(q) : q[i] = x

\* the k-th integer N >= from such that base_N is not a base name
RECURSIVE MsgNthFree(_, _, _, _)
MsgNthFree(b, bases, k, from) ==
  IF (b \o "_" \o ToString(from)) \in bases THEN MsgNthFree(b, bases, k, from + 1)
  ELSE IF k = 1 THEN from
  ELSE MsgNthFree(b, bases, k - 1, from + 1)

\* name of the i-th node
MsgNameAt(nodes, i) ==
  LET b == nodes[i].b reps == MsgGroupReps(nodes, b) IN
  IF Len(reps) = 1 THEN b
  ELSE b \o "_" \o ToString(MsgNthFree(b, MsgBaseSet(nodes), MsgPosIn(nodes[i].p, reps), 1))

MsgNamesOf(nodes) == [i \in 1..Len(nodes) |-> MsgNameAt(nodes, i)]

\* names of the nodes of a body, in visiting order
NodeNames(body) == MsgNamesOf(MsgNodes(body))

\* name of part p given the nodes and their names
MsgNameOfPart(nodes, names, p) == names[CHOOSE i \in 1..Len(nodes) : nodes[i].p = p]

\* structural features (used to classify cases and findings)
MsgSuffixCollision(body) ==    \* some base_N a multi-group would try is a base name
  LET ns == MsgNodes(body) bs == MsgBaseSet(ns) IN
  \E b \in bs : Len(MsgGroupReps(ns, b)) > 1 /\
     \E k \in 1..(Len(MsgGroupReps(ns, b)) + Cardinality(bs)) : (b \o "_" \o ToString(k)) \in bs
MsgMultiGroup(body) ==
  LET ns == MsgNodes(body) IN \E b \in MsgBaseSet(ns) : Len(MsgGroupReps(ns, b)) > 1
MsgRepeats(body) ==            \* some placeholder occurs twice
  LET ns == MsgNodes(body) IN \E i, j \in 1..Len(ns) : i < j /\ ns[i].p = ns[j].p


(***************************************************************************)
(* The structural feature of a body that a finding is signed with: what    *)
(* about the body makes naming non-trivial.  (Classification only; no      *)
(* verdict depends on it.)                                                 *)
(***************************************************************************)
RECURSIVE MsgFlatExpr(_)
RECURSIVE MsgFlatAcc(_)
MsgFlatAcc(acc) ==
  IF acc = <<>> THEN ""
  ELSE LET a == Head(acc) IN
       (CASE a.k = "key" -> "." \o a.key
          [] a.k = "idx" -> "." \o ToString(a.idx)
          [] OTHER -> "[" \o MsgFlatExpr(a.e) \o "]") \o MsgFlatAcc(Tail(acc))
\* the expression's tokens without any grouping
MsgFlatExpr(e) ==
  CASE e.k = "var" -> "$" \o e.name \o MsgFlatAcc(e.acc)
    [] e.k = "int" -> ToString(e.v)
    [] e.k = "global" -> e.name
    [] e.k \in {"add", "sub", "mul", "div", "mod"} -> MsgFlatExpr(e.a) \o " " \o e.k \o " " \o MsgFlatExpr(e.b)
    [] OTHER -> "?" \o e.k

MsgGroupingOnly(nodes) ==    \* two distinct prints that differ only in grouping
  \E i, j \in 1..Len(nodes) :
     /\ i < j /\ nodes[i].p.k = "print" /\ nodes[j].p.k = "print" /\ nodes[i].p # nodes[j].p
     /\ nodes[i].p.e.k \in {"add", "sub", "mul", "div", "mod"}
     /\ nodes[j].p.e.k \in {"add", "sub", "mul", "div", "mod"}
     /\ MsgFlatExpr(nodes[i].p.e) = MsgFlatExpr(nodes[j].p.e)

\* the identifier a base name is derived from ("" if none)
MsgBaseIdent(p) ==
  IF p.k = "tag" THEN ""
  ELSE IF p.e.k = "global" THEN MsgAfterLastDot(p.e.name)
  ELSE IF p.e.k = "var" THEN
         IF Len(p.e.acc) = 0 THEN p.e.name
         ELSE IF p.e.acc[Len(p.e.acc)].k = "key" THEN p.e.acc[Len(p.e.acc)].key ELSE ""
  ELSE ""

\* a tag whose name is not written in lower case
MsgTagHasUpper(p) == p.k = "tag" /\ MsgAlnumRun(p.s, IF MsgTagIsEnd(p.s) THEN 3 ELSE 2) # MsgTagName(p.s)

MsgFeature(body) ==
  LET ns == MsgNodes(body) IN
  IF MsgSuffixCollision(body) THEN "suffix-collides-with-base-name"
  ELSE IF MsgNested(body) /\ MsgMultiGroup(body) THEN "same-base-name-at-different-plural-depths"
  ELSE IF \E i \in 1..Len(ns) : MsgTagHasUpper(ns[i].p) THEN "tag-name-not-lower-case"
  ELSE IF MsgGroupingOnly(ns) THEN "exprs-differ-only-in-grouping"
  ELSE IF \E i \in 1..Len(ns) : MsgCloseHumps(MsgBaseIdent(ns[i].p)) THEN "identifier-adjacent-word-boundaries"
  ELSE IF \E i \in 1..Len(ns) : ns[i].p.k = "print" /\ ns[i].p.e.k = "global" /\ MsgLastDot(ns[i].p.e.name, Len(ns[i].p.e.name)) > 0
       THEN "global-dotted-name"
  ELSE IF \E i, j \in 1..Len(ns) : i < j /\ ns[i].p.k = "print" /\ ns[j].p.k = "print" /\ ns[i].p # ns[j].p
                                       /\ ns[i].p.e = ns[j].p.e
       THEN "same-expr-different-directives"
  ELSE IF MsgMultiGroup(body) THEN "several-sources-one-base-name"
  ELSE IF MsgHasPlural(body) THEN "plural"
  ELSE IF MsgRepeats(body) THEN "repeated-placeholder"
  ELSE "plain"

(***************************************************************************)
(* Placeholder string.  braces = TRUE: {NAME}; FALSE: NAME (what the id of *)
(* a message without plural is computed from).  A plural is always spelled *)
(* {VAR,plural,=1{...}other{...}} with braced placeholders inside.         *)
(***************************************************************************)
RECURSIVE MsgPhBody(_, _, _, _)
RECURSIVE MsgPhCases(_, _, _)
MsgPhCases(nodes, names, cs) ==
  IF cs = <<>> THEN ""
  ELSE "=" \o ToString(Head(cs).v) \o "{" \o MsgPhBody(nodes, names, Head(cs).body, TRUE) \o "}"
       \o MsgPhCases(nodes, names, Tail(cs))
MsgPhBody(nodes, names, body, braces) ==
  IF body = <<>> THEN ""
  ELSE LET p == Head(body) IN
       (CASE p.k = "text" -> p.s
          [] p.k = "plural" ->
               "{" \o MsgNameOfPart(nodes, names, p) \o ",plural," \o MsgPhCases(nodes, names, p.cases)
               \o "other{" \o MsgPhBody(nodes, names, p.dflt, TRUE) \o "}}"
          [] OTHER -> IF braces THEN "{" \o MsgNameOfPart(nodes, names, p) \o "}"
                      ELSE MsgNameOfPart(nodes, names, p))
       \o MsgPhBody(nodes, names, Tail(body), braces)

PlaceholderString(body) == LET ns == MsgNodes(body) IN MsgPhBody(ns, MsgNamesOf(ns), body, TRUE)
MsgKeyString(body)      == LET ns == MsgNodes(body) IN MsgPhBody(ns, MsgNamesOf(ns), body, FALSE)

(***************************************************************************)
(* What the id may depend on, and the id with an uninterpreted             *)
(* fingerprint.  An absent meaning is the empty string and is not mixed.   *)
(***************************************************************************)
MsgKey(m) == [s |-> MsgKeyString(m.body), meaning |-> m.meaning]

MsgFp(s) == <<"fp", s>>
MsgMix(a, b) == <<"mix", a, b>>
MsgIdOfKey(key) ==
  IF key.meaning = "" THEN MsgFp(key.s) ELSE MsgMix(MsgFp(key.s), MsgFp(key.meaning))
MsgIdAbs(m) == MsgIdOfKey(MsgKey(m))

(***************************************************************************)
(* Expression and part pools (SoyExpr tree encoding).                      *)
(***************************************************************************)
MsgVar(n)      == [k |-> "var", name |-> n, acc |-> <<>>]
MsgKeyAcc(key) == [k |-> "key", ns |-> FALSE, key |-> key]
MsgIdxAcc(i)   == [k |-> "idx", ns |-> FALSE, idx |-> i]
MsgExprAcc(e)  == [k |-> "expr", ns |-> FALSE, e |-> e]
MsgRef(n, acc) == [k |-> "var", name |-> n, acc |-> acc]
MsgInt(n)      == [k |-> "int", v |-> n]
MsgBool(v)     == [k |-> "bool", v |-> v]
MsgBin(op, a, b) == [k |-> op, a |-> a, b |-> b]

\* C10 pool: chosen so that base names collide with each other and with
\* suffixed names: X (three sources), X_1, XX_1, XXX (two sources),
\* START_LINK (two sources), END_LINK, BREAK, text.
PoolC10 == <<
  MPrint(MsgRef("a", <<MsgKeyAcc("x")>>)),          \* 1  {$a.x}     X
  MPrint(MsgRef("b", <<MsgKeyAcc("x")>>)),          \* 2  {$b.x}     X
  MPrint(MsgVar("x")),                              \* 3  {$x}       X
  MPrint(MsgVar("x_1")),                            \* 4  {$x_1}     X_1
  MPrint(MsgVar("xx1")),                            \* 5  {$xx1}     XX_1
  MPrint(MsgRef("a", <<MsgExprAcc([k |-> "int", v |-> 0])>>)),  \* 6  {$a[0]}  XXX
  MPrint(MsgBin("add", MsgVar("a"), MsgInt(1))),    \* 7  {$a + 1}   XXX
  MTag("<a>"),                                      \* 8             START_LINK
  MTag("<a href=x>"),                               \* 9             START_LINK
  MTag("</a>"),                                     \* 10            END_LINK
  MTag("<br/>"),                                    \* 11            BREAK
  MText("t"),                                       \* 12
  MText(" u ") >>                                   \* 13  (spaces are part of the text)

(***************************************************************************)
(* Bounded case families (descriptors, so that TLC enumerates index        *)
(* sequences rather than sets of heterogeneous records).                   *)
(*   [kind|->"flat", ix]                      ix : Seq(1..Len(PoolC10))    *)
(*   [kind|->"plural", subj, cs, cb, db]      subject, case set, one index *)
(*                                            sequence per case + default  *)
(***************************************************************************)
MsgInnerPool == << PoolC10[3], PoolC10[1], MPrint(MsgVar("n")), PoolC10[4], PoolC10[12], PoolC10[8] >>
MsgPluralSubjects == << MsgVar("n"), MsgVar("x"), MsgBin("add", MsgVar("a"), MsgInt(1)) >>
MsgCaseSets == << <<1>>, <<0, 1>>, <<2>> >>

MsgIxSeqs(n, m) == UNION {[1..k -> 1..m] : k \in 0..n}

MsgFamFlat(n) == {[kind |-> "flat", ix |-> ix] : ix \in MsgIxSeqs(n, Len(PoolC10))}

MsgFamPlural(n) ==
  UNION {
    LET nc == Len(MsgCaseSets[j])
        bodies == MsgIxSeqs(IF nc = 1 THEN n ELSE 1, Len(MsgInnerPool)) IN
    {[kind |-> "plural", subj |-> s, cs |-> j, cb |-> cb, db |-> db] :
        s \in 1..Len(MsgPluralSubjects), cb \in [1..nc -> bodies], db \in bodies}
    : j \in 1..Len(MsgCaseSets)}


(***************************************************************************)
(* Extra bodies: the vectors pinned by the repository's tests              *)
(* (TestSetPlaceholders, TestSetPluralVarName, TestBaseName,               *)
(* TestToUpperUnderscore), the tag table, and cases the pools do not       *)
(* reach: distinct expressions that differ only in grouping, identifiers   *)
(* with word boundaries two characters apart, globals.                     *)
(***************************************************************************)
MsgP(n)        == MPrint(MsgVar(n))
MsgPK(n, key)  == MPrint(MsgRef(n, <<MsgKeyAcc(key)>>))
MsgFn(n, args) == [k |-> "fn", name |-> n, args |-> args]
MsgGlobal(n)   == [k |-> "global", name |-> n]
MsgA1          == MsgBin("add", MsgVar("a"), MsgInt(1))

MsgExtraBodies == <<
  \* 1-2: grouping is part of an expression's identity
  << MPrint(MsgBin("mul", MsgA1, MsgInt(2))), MPrint(MsgBin("add", MsgVar("a"), MsgBin("mul", MsgInt(1), MsgInt(2)))) >>,
  << MPrint(MsgBin("add", MsgVar("a"), MsgBin("mul", MsgInt(1), MsgInt(2)))), MText(" "),
     MPrint(MsgBin("add", MsgVar("a"), MsgBin("mul", MsgInt(1), MsgInt(2)))) >>,
  << MPrint(MsgBin("sub", MsgVar("a"), MsgBin("sub", MsgVar("b"), MsgVar("x")))),
     MPrint(MsgBin("sub", MsgBin("sub", MsgVar("a"), MsgVar("b")), MsgVar("x"))) >>,
  \* 4-8: TestSetPlaceholders
  << MText("Hello "), MsgP("name") >>,
  << MsgP("a"), MText(", "), MsgP("b"), MText(", and "), MsgP("c") >>,
  << MsgP("a"), MText(" "), MsgP("a") >>,
  << MsgP("a"), MText(" "), MsgPK("b", "a") >>,
  << MsgPK("a", "a"), MPrint(MsgRef("a", <<MsgKeyAcc("b"), MsgKeyAcc("a")>>)) >>,
  \* 9-12: html
  << MText("Click "), MTag("<a>"), MText("here"), MTag("</a>") >>,
  << MTag("<br>"), MTag("<br/>"), MTag("<br/>") >>,
  << MTag("<a href=foo>"), MText("Click"), MTag("</a>"), MText(" "), MTag("<a href=bar>"), MText("here"), MTag("</a >") >>,
  << MTag("<p>"), MText("P1"), MTag("</p>"), MTag("<p>"), MText("P2"), MTag("</p>"), MTag("<p>"), MText("P3"), MTag("</p>") >>,
  \* 13: the tag table
  << MTag("<b>"), MTag("</b>"), MTag("<i>"), MTag("<li>"), MTag("<ol>"), MTag("<ul>"), MTag("<img src=x>"),
     MTag("<em>"), MTag("</em>"), MTag("<span>"), MTag("</span>"), MTag("<A>"), MTag("<br />"), MTag("<div class=y>") >>,
  \* 14-16: TestSetPluralVarName
  << MPlural(MsgVar("eggs"), <<MCase(1, <<MText("one")>>)>>, <<MText("other")>>) >>,
  << MPlural(MsgVar("eggs"), <<MCase(1, <<MText("one")>>)>>, <<MsgP("eggs")>>) >>,
  << MPlural(MsgFn("length", <<MsgVar("eggs")>>), <<MCase(1, <<MText("one")>>)>>, <<MText("other")>>) >>,
  \* 17: TestBaseName
  << MsgP("foo"), MsgPK("foo", "boo"),
     MPrint(MsgRef("foo", <<MsgKeyAcc("boo"), MsgExprAcc(MsgInt(0)), MsgKeyAcc("zoo")>>)),
     MPrint(MsgRef("foo", <<MsgKeyAcc("boo"), MsgIdxAcc(0), MsgKeyAcc("zoo")>>)),
     MPrint(MsgRef("foo", <<MsgExprAcc(MsgInt(0))>>)),
     MPrint(MsgRef("foo", <<MsgKeyAcc("boo"), MsgExprAcc(MsgInt(0))>>)),
     MPrint(MsgRef("foo", <<MsgKeyAcc("boo"), MsgIdxAcc(0)>>)),
     MPrint(MsgBin("add", MsgVar("foo"), MsgInt(1))),
     MPrint([k |-> "str", v |-> "text"]),
     MPrint(MsgFn("max", <<MsgInt(1), MsgInt(3)>>)) >>,
  \* 18-19: TestToUpperUnderscore, as variable names
  << MsgP("booFoo"), MsgP("boo8Foo"), MsgP("booFoo88"), MsgP("boo88_foo") >>,
  << MsgP("_booFoo"), MsgP("__BOO__FOO__"), MsgP("Boo_Foo"), MsgP("_boo_8foo"), MsgP("boo_foo8"), MsgP("_BOO__8_FOO_") >>,
  \* 20: word boundaries two characters apart
  << MsgP("isOkNow"), MsgP("aBcDe") >>,
  \* 21: null-safe key access, injected data
  << MPrint([k |-> "var", name |-> "a", acc |-> <<[k |-> "key", ns |-> TRUE, key |-> "fooBar"]>>]),
     MPrint(MsgRef("ij", <<MsgKeyAcc("fooBar")>>)) >>,
  \* 22-23: globals
  << MPrint(MsgGlobal("GLOB")), MText(" "), MPrint(MsgGlobal("otherGlob")) >>,
  << MPrint(MsgGlobal("app.glob")) >>,
  \* 24-25: the suffix collision, smallest forms
  << PoolC10[1], PoolC10[2], PoolC10[4] >>,
  << PoolC10[4], PoolC10[1], PoolC10[2] >>,
  \* 26-30: print directives belong to the placeholder's identity
  << MPrintD(MsgVar("x"), <<MDir("truncate", <<MsgInt(3), MsgBool(FALSE)>>)>>), MText(" is short for "), MsgP("x") >>,
  << MPrintD(MsgVar("x"), <<MDir("noAutoescape", <<>>)>>), MText(" "), MPrintD(MsgVar("x"), <<MDir("noAutoescape", <<>>)>>) >>,
  << MPrintD(MsgVar("x"), <<MDir("truncate", <<MsgInt(3)>>)>>), MPrintD(MsgVar("x"), <<MDir("truncate", <<MsgInt(5)>>)>>), MsgP("x") >>,
  << MPrintD(MsgVar("x"), <<MDir("escapeUri", <<>>), MDir("truncate", <<MsgInt(3)>>)>>),
     MPrintD(MsgVar("x"), <<MDir("truncate", <<MsgInt(3)>>), MDir("escapeUri", <<>>)>>) >>,
  << MPrintD(MsgA1, <<MDir("noAutoescape", <<>>)>>), MPrint(MsgA1), MPrintD(MsgRef("a", <<MsgKeyAcc("x")>>), <<MDir("id", <<>>)>>), PoolC10[1] >>
>>

\* tag names in every case pattern (and with what may follow the name), each
\* as start tag, end tag, self-closing tag and start tag with an attribute.
\* The name is what precedes the first non-alphanumeric character, LOWER-CASED;
\* then the table; then START_/END_ and upper-casing.
\* Boundary inputs of the fingerprint routine (which re-maps the fingerprints 0
\* and 1): texts whose 32-bit hash with seed 0 is 0, and texts whose hash with
\* seed 102072 is 0 or 1 (found by search; the harness checks that they are
\* such, with its own implementation, and searches for more at run time).
MsgWitnessBodies == << <<MText("ahyibdjr")>>, <<MText("anutneso")>>, <<MText("aolouwdz")>>,
                       <<MText("aetaidqo")>>, <<MText("aexahrdv")>>, <<MText("afoyiauh")>> >>

MsgTagNames == << "h0", "h2", "h3", "h4", "h5", "h6", "h7", "h8", "h9", "z9a0", "Az09", "textarea", "TEXTAREA", "TextArea", "textArea", "Textarea", "NoBr", "IFrame", "TBody",
                  "h1", "H1", "x-foo", "X-Foo", "svg:rect", "SVG:Rect", "A", "Img", "BR", "eM", "Ul" >>
MsgTagBodies ==
  [i \in 1..Len(MsgTagNames) |->
     LET n == MsgTagNames[i] IN
     << MTag("<" \o n \o ">"), MText("t"), MTag("</" \o n \o ">"), MTag("<" \o n \o "/>"), MTag("<" \o n \o " k=v>") >>]

\* every kind of expression that can be printed in a message, one body each
\* (plus the globals together): the base name is the variable, the LAST key of
\* a data reference (also null-safe, also of $ij), the part of a global's name
\* after its LAST dot; XXX for everything else.
MsgKeyNs(key)  == [k |-> "key", ns |-> TRUE, key |-> key]
MsgStr(v)      == [k |-> "str", v |-> v]
MsgG1 == MsgGlobal("MAX_ITEMS")
MsgG2 == MsgGlobal("app.MAX_ITEMS")
MsgG3 == MsgGlobal("app.settings.MAX_ITEMS")
MsgG4 == MsgGlobal("a.b.c.maxItems")
MsgExprBodies == <<
  << MText("You may pick "), MPrint(MsgG1), MText(" items") >>,
  << MText("You may pick "), MPrint(MsgG2), MText(" items") >>,
  << MText("You may pick "), MPrint(MsgG3), MText(" items") >>,
  << MText("You may pick "), MPrint(MsgG4), MText(" items") >>,
  << MPrint(MsgG3), MPrint(MsgG2), MPrint(MsgG1), MPrint(MsgG4), MsgP("maxItems") >>,
  << MText("w "), MPrint(MsgRef("a", <<MsgKeyAcc("fooBar"), MsgKeyAcc("bazQux")>>)) >>,
  << MText("w "), MPrint(MsgRef("a", <<MsgKeyAcc("b"), MsgKeyAcc("c"), MsgKeyAcc("lastKey")>>)) >>,
  << MText("w "), MPrint(MsgRef("a", <<MsgKeyNs("b"), MsgKeyNs("lastKey")>>)) >>,
  << MText("w "), MPrint(MsgRef("a", <<MsgExprAcc(MsgStr("b"))>>)) >>,
  << MText("w "), MPrint(MsgRef("a", <<MsgKeyAcc("b"), MsgExprAcc(MsgVar("x"))>>)) >>,
  << MText("w "), MPrint(MsgRef("a", <<MsgExprAcc(MsgVar("x")), MsgKeyAcc("afterBracket")>>)) >>,
  << MText("w "), MPrint(MsgRef("ij", <<MsgKeyAcc("a"), MsgKeyAcc("deepKey")>>)) >>,
  << MText("w "), MPrint(MsgFn("length", <<MsgVar("a")>>)) >>,
  << MText("w "), MPrint(MsgFn("round", <<MsgRef("a", <<MsgKeyAcc("b")>>)>>)) >>,
  << MText("w "), MPrint(MsgInt(7)), MPrint(MsgStr("s")), MPrint(MsgBool(TRUE)), MPrint([k |-> "null"]) >>,
  << MText("w "), MPrint([k |-> "neg", a |-> MsgVar("a")]), MPrint([k |-> "not", a |-> MsgVar("a")]) >>,
  << MText("w "), MPrint([k |-> "tern", c |-> MsgVar("a"), a |-> MsgInt(1), b |-> MsgInt(2)]),
     MPrint(MsgBin("elvis", MsgVar("a"), MsgStr("x"))), MPrint(MsgBin("and", MsgVar("a"), MsgVar("b"))) >>
>>

\* Word boundaries at EVERY letter: for each capital L a name with L after a
\* lower-case letter, after a digit, after another capital, at the start and
\* at the end (one body per capital); then the letters and digits at the ends of
\* the ranges; then acronyms / runs of capitals of length 2..4 at the start, in
\* the middle and at the end, with digits and with underscores already there --
\* as variables, as last segment of a data reference, as global.
\* (userID -> USERID, theXMLHttp -> THEXML_HTTP: a boundary is in front of a
\* capital only if a lower-case letter FOLLOWS it.)
MsgCapBodies ==
  [i \in 1..26 |->
     LET L == MsgCh(MsgUpperS, i) IN
     << MsgP("x" \o L \o "y"), MsgP("x9" \o L \o "y"), MsgP("xQ" \o L \o "y"), MsgP(L \o "yz"), MsgP("xy" \o L),
        MsgP("p" \o L \o "q" \o L \o "r") >>]
MsgEdgeBody ==
  << MsgP("a0a"), MsgP("z9z"), MsgP("aAz"), MsgP("zZa"), MsgP("a0Zz"), MsgP("z9Aa"), MsgP("A0"), MsgP("Z9"),
     MsgP("x0"), MsgP("x9"), MsgP("q0w9e") >>
MsgAcronymBodies == <<
  << MsgP("userID"), MsgP("theXMLHttp"), MsgP("XMLHttp"), MsgP("getHTTPResponse2Code"), MsgP("ID"), MsgP("anID") >>,
  << MsgP("aBCd"), MsgP("aBCDe"), MsgP("aBCDEf"), MsgP("ABcd"), MsgP("ABCd"), MsgP("ABCDe"), MsgP("abCD"), MsgP("abCDE") >>,
  << MsgP("x_ID_y"), MsgP("user_ID9"), MsgP("HTMLParser"), MsgP("parseHTML"), MsgP("parse_HTML_2x"), MsgP("a1B2c3"), MsgP("A1b2C3") >>,
  << MsgPK("a", "userID"), MsgPK("a", "theXMLHttp"), MPrint(MsgGlobal("app.userID")), MPrint(MsgGlobal("app.cfg.theXMLHttp")),
     MPrint(MsgRef("a", <<MsgKeyNs("getHTTPCode")>>)) >>
>>

MsgAllExtraBodies == MsgExtraBodies \o MsgTagBodies \o MsgExprBodies \o MsgCapBodies \o <<MsgEdgeBody>> \o MsgAcronymBodies
                     \o MsgWitnessBodies

\* Message text is a sequence of BYTES (a template need not be valid UTF-8: a
\* file saved as Latin-1 has one byte >= 128 per accented letter).  The id is a
\* function of the bytes: [k |-> "btext", bytes |-> Seq(0..255)].
MsgByteTexts == <<
  <<72, 252, 108, 108, 101>>,           \* "H\xfclle"   Latin-1 Hülle
  <<72, 246, 108, 108, 101>>,           \* "H\xf6lle"   Latin-1 Hölle
  <<72, 233, 108, 108, 101>>,
  <<72, 255, 108, 108, 101>>,
  <<72, 128, 108, 108, 101>>,
  <<72, 252, 252, 108, 108, 101>>,      \* two invalid bytes in a row
  <<72, 195, 188, 108, 108, 101>>,      \* "Hülle" in UTF-8
  <<72, 239, 191, 189, 108, 108, 101>>, \* a real U+FFFD
  <<72, 195, 108, 108, 101>>,           \* a lead byte without continuation
  <<72, 117, 108, 108, 101>>,           \* ASCII "Hulle"
  <<252>>, <<246>>, <<108, 101, 252>>, <<252, 108, 101>> >>
MsgFamBytes == {[kind |-> "bytes", i |-> i] : i \in 1..Len(MsgByteTexts)}
MsgFpBytes(b) == <<"fpb", b>>

\* what "made valid UTF-8" does to a byte sequence: every maximal run of bytes
\* that are not part of a well-formed sequence becomes one U+FFFD (65533)
RECURSIVE MsgToValidFrom(_, _, _)
MsgToValidFrom(b, i, inBad) ==
  IF i > Len(b) THEN <<>>
  ELSE LET x == b[i]
           cont(j) == j <= Len(b) /\ b[j] >= 128 /\ b[j] <= 191 IN
       IF x < 128 THEN <<x>> \o MsgToValidFrom(b, i + 1, FALSE)
       ELSE IF x >= 194 /\ x <= 223 /\ cont(i + 1) THEN <<x, b[i + 1]>> \o MsgToValidFrom(b, i + 2, FALSE)
       ELSE IF x >= 225 /\ x <= 239 /\ cont(i + 1) /\ cont(i + 2) THEN <<x, b[i + 1], b[i + 2]>> \o MsgToValidFrom(b, i + 3, FALSE)
       ELSE (IF inBad THEN <<>> ELSE <<65533>>) \o MsgToValidFrom(b, i + 1, TRUE)
MsgToValid(b) == MsgToValidFrom(b, 1, FALSE)

\* Nested plurals: {plural $n}{case 1}S1 {plural $m}{case 1}S2{default}S3{/plural} S4{default}S5{/plural}
\* (or the inner plural in the default), the slots filled with placeholders that
\* share the base name A, so that same-named placeholders sit at different
\* depths, before and after the inner plural, in every order.
MsgNestPool == << MPrint(MsgRef("x", <<MsgKeyAcc("a")>>)), MPrint(MsgRef("y", <<MsgKeyAcc("a")>>)), MPrint(MsgVar("a")), MText("t") >>
MsgFamNested ==
  {[kind |-> "nested", s1 |-> s1, s2 |-> s2, s3 |-> s3, s4 |-> s4, s5 |-> s5, indef |-> f] :
      s1 \in 0..2, s2 \in 1..4, s3 \in 1..4, s4 \in 0..2, s5 \in 1..4, f \in BOOLEAN}
MsgNestSlot(i) == IF i = 0 THEN <<>> ELSE <<MsgNestPool[i]>>
MsgNestBody(d) ==
  LET inner == MPlural(MsgVar("m"), <<MCase(1, MsgNestSlot(d.s2))>>, MsgNestSlot(d.s3))
      withInner == MsgNestSlot(d.s1) \o <<inner>> \o MsgNestSlot(d.s4)
      other == MsgNestSlot(d.s5) IN
  << MPlural(MsgVar("n"), <<MCase(1, IF d.indef THEN other ELSE withInner)>>, IF d.indef THEN withInner ELSE other) >>

\* Text / meaning pairs whose naive concatenation coincides: every split of a
\* string into text | meaning (the last split has no meaning).  Their ids are
\* all different (MsgIdAbs mixes two fingerprints; it does not join strings).
MsgSplitStrings == << "Archivenoun", "Deleteverb", "mm" >>
MsgFamSplit == UNION {{[kind |-> "split", s |-> k, at |-> i] : i \in 1..Len(MsgSplitStrings[k])} : k \in 1..Len(MsgSplitStrings)}
\* The attributes of {msg} as inputs: the meaning is the TEXT the attribute
\* denotes (its quotes removed and its escapes resolved), whatever characters it
\* holds; desc and hidden are no inputs at all.  The same texts serve as
\* descriptions in the binding.
MsgAttrTexts == << "verb \"open\"", "a\\b", "C:\\temp\\\"x\"", "two\nlines", "it's", "{x} {lb}", " padded ",
                   "tab\there", "Verb", "v", "ünï" >>
MsgFamAttr == {[kind |-> "attr", i |-> i] : i \in 1..Len(MsgAttrTexts)}
MsgFamMeaning(d) ==
  IF d.kind = "split" THEN MsgSuffixStr(MsgSplitStrings[d.s], d.at + 1)
  ELSE IF d.kind = "attr" THEN MsgAttrTexts[d.i]
  ELSE ""

\* the spelling of a text inside a double-quoted attribute (what a parser that
\* does not resolve escapes would take the meaning to be)
RECURSIVE MsgQuotedFrom(_, _)
MsgQuotedFrom(s, i) ==
  IF i > Len(s) THEN ""
  ELSE LET ch == MsgCh(s, i) IN
       (IF ch = "\"" THEN "\\\"" ELSE IF ch = "\\" THEN "\\\\" ELSE ch) \o MsgQuotedFrom(s, i + 1)
MsgQuoted(s) == MsgQuotedFrom(s, 1)

\* Where a message can sit in a template.  Names, placeholder string and id
\* are functions of the message alone: none of these may matter.
MsgContextKinds == << "alone", "after-message", "if", "elseif", "else", "foreach", "ifempty",
                      "switch-case", "switch-default", "let-block", "call-param", "log",
                      "nested", "twice", "last-template" >>

MsgFamExtra == {[kind |-> "extra", i |-> i] : i \in 1..Len(MsgAllExtraBodies)}

MsgPick(pool, ix) == [i \in 1..Len(ix) |-> pool[ix[i]]]

\* (the subjects' base names are tabulated once)
MsgPluralSubjectBases == [i \in 1..Len(MsgPluralSubjects) |-> MsgExprBase(MsgPluralSubjects[i], "NUM")]

MsgFamBody(d) ==
  IF d.kind = "flat" THEN MsgPick(PoolC10, d.ix)
  ELSE IF d.kind = "extra" THEN MsgAllExtraBodies[d.i]
  ELSE IF d.kind = "nested" THEN MsgNestBody(d)
  ELSE IF d.kind = "split" THEN << MText(MsgPrefixStr(MsgSplitStrings[d.s], d.at)) >>
  ELSE IF d.kind = "bytes" THEN << [k |-> "btext", bytes |-> MsgByteTexts[d.i]] >>
  ELSE IF d.kind = "attr" THEN << MText("Open "), MPrint(MsgVar("x")) >>
  ELSE << [k |-> "plural", e |-> MsgPluralSubjects[d.subj],
           cases |-> [i \in 1..Len(d.cb) |-> MCase(MsgCaseSets[d.cs][i], MsgPick(MsgInnerPool, d.cb[i]))],
           dflt |-> MsgPick(MsgInnerPool, d.db),
           b |-> MsgPluralSubjectBases[d.subj]] >>

RECURSIVE MsgIxStr(_)
MsgIxStr(ix) == IF ix = <<>> THEN "" ELSE ToString(Head(ix)) \o "." \o MsgIxStr(Tail(ix))
RECURSIVE MsgIxStrs(_)
MsgIxStrs(q) == IF q = <<>> THEN "" ELSE MsgIxStr(Head(q)) \o "/" \o MsgIxStrs(Tail(q))
MsgFamId(d) ==
  IF d.kind = "flat" THEN "F" \o MsgIxStr(d.ix)
  ELSE IF d.kind = "extra" THEN "X" \o (IF d.i < 10 THEN "0" ELSE "") \o ToString(d.i)
  ELSE IF d.kind = "nested" THEN "N" \o (IF d.indef THEN "d" ELSE "c") \o MsgIxStr(<<d.s1, d.s2, d.s3, d.s4, d.s5>>)
  ELSE IF d.kind = "attr" THEN "A" \o (IF d.i < 10 THEN "0" ELSE "") \o ToString(d.i)
  ELSE IF d.kind = "bytes" THEN "Y" \o (IF d.i < 10 THEN "0" ELSE "") \o ToString(d.i)
  ELSE IF d.kind = "split" THEN "S" \o ToString(d.s) \o "." \o (IF d.at < 10 THEN "0" ELSE "") \o ToString(d.at)
  ELSE "P" \o ToString(d.subj) \o "c" \o ToString(d.cs) \o ":" \o MsgIxStrs(d.cb) \o "d" \o MsgIxStr(d.db)
=============================================================================
