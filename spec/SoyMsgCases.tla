----------------------------- MODULE SoyMsgCases -----------------------------
(***************************************************************************)
(* M2 for C10: TLC enumerates every message body of the bounded families   *)
(* and prints, for each, one JSON line with the body (structured parts the *)
(* harness unparses to Soy source) and what SoyMsg expects of the real     *)
(* code: the placeholder names in visiting order, the placeholder string,  *)
(* the id key, and structural features used to sign findings.              *)
(* Shard/NShards split the family over several TLC processes.              *)
(***************************************************************************)
EXTENDS SoyMsg, Json
CONSTANTS MaxParts, MaxInner, Shard, NShards
VARIABLE cas

RECURSIVE SumSeq(_)
SumSeq(q) == IF q = <<>> THEN 0 ELSE Head(q) + SumSeq(Tail(q))
RECURSIVE SumSeqs(_)
SumSeqs(q) == IF q = <<>> THEN 0 ELSE SumSeq(Head(q)) + SumSeqs(Tail(q))

ShardOf(d) ==
  IF d.kind = "flat" THEN SumSeq(d.ix) % NShards
  ELSE IF d.kind = "extra" THEN d.i % NShards
  ELSE IF d.kind = "nested" THEN (d.s1 + d.s2 + d.s3 + d.s4 + d.s5) % NShards
  ELSE IF d.kind = "split" THEN d.at % NShards
  ELSE IF d.kind = "bytes" THEN d.i % NShards
  ELSE IF d.kind = "attr" THEN d.i % NShards
  ELSE (d.subj + d.cs + SumSeqs(d.cb) + SumSeq(d.db)) % NShards

Init == cas \in {d \in MsgFamFlat(MaxParts) \cup MsgFamPlural(MaxInner) \cup MsgFamExtra \cup MsgFamNested \cup MsgFamSplit \cup MsgFamBytes \cup MsgFamAttr :
                   ShardOf(d) = Shard}

Meanings == <<"", "m", "verb">>
Next == UNCHANGED cas

\* text given as bytes: the placeholder string and the id key ARE the bytes
BytesRecord(d) ==
  LET b == MsgByteTexts[d.i] IN
  [id |-> MsgFamId(d), parts |-> MsgFamBody(d), names |-> <<>>, phstr |-> "", key |-> "", keyb |-> b,
   coll |-> FALSE, multi |-> FALSE, rep |-> FALSE, feat |-> "text-bytes",
   idterms |-> << [meaning |-> "", term |-> MsgFpBytes(b)] >>]

CaseRecord(d) ==
  LET body == MsgFamBody(d)
      ns == MsgNodes(body)
      nm == MsgNamesOf(ns) IN
  [id    |-> MsgFamId(d),
   parts |-> body,
   names |-> nm,
   phstr |-> MsgPhBody(ns, nm, body, TRUE),
   key   |-> MsgPhBody(ns, nm, body, FALSE),
   coll  |-> MsgSuffixCollision(body),
   multi |-> MsgMultiGroup(body),
   rep   |-> MsgRepeats(body),
   feat  |-> MsgFeature(body),
   idterms |-> LET ms == IF d.kind = "split" THEN <<MsgFamMeaning(d)>>
                         ELSE IF d.kind = "attr" THEN <<"", MsgFamMeaning(d)>> ELSE Meanings IN
               [i \in 1..Len(ms) |->
                  [meaning |-> ms[i],
                   term |-> MsgIdAbs([body |-> body, meaning |-> ms[i], desc |-> ""])]]]

Export == PrintT(ToJson(IF cas.kind = "bytes" THEN BytesRecord(cas) ELSE CaseRecord(cas)))
=============================================================================
