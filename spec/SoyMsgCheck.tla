----------------------------- MODULE SoyMsgCheck -----------------------------
(***************************************************************************)
(* M1 for C10: TLC checks, over every body of the bounded families, that   *)
(*  (1) the step-by-step naming machine (groups processed one at a time,   *)
(*      suffix collisions tested) assigns exactly the names of the         *)
(*      declarative sequence algorithm NodeName, whatever happens in       *)
(*      between -- with Dev = {} the machine takes groups in order of      *)
(*      first appearance and tests collisions against the base names;      *)
(*  (2) the names have the properties the language promises (total, equal  *)
(*      parts share a name, distinct parts never do, single               *)
(*      representatives keep the base name, suffixes are the first free    *)
(*      integers);                                                         *)
(*  (3) the id model ignores the description, is sensitive to the meaning, *)
(*      and the id key loses nothing of the placeholder string on this     *)
(*      pool.                                                              *)
(* Named deviations (each must make TLC violate the stated invariant):     *)
(*   "phnames_in_map_order"  groups are named in an arbitrary order and a  *)
(*                           candidate base_N is tested against the names  *)
(*                           assigned SO FAR (a map being filled)          *)
(*   "id_includes_desc"      the description is hashed into the id         *)
(*   "id_drops_meaning"      the meaning is not mixed into the id          *)
(*   "depth_first"           the nodes of a message are collected by a     *)
(*                           recursive walk (a plural's inner placeholders *)
(*                           right after it) instead of breadth first      *)
(*   "id_key_joined"         the id is a function of text and meaning      *)
(*                           joined without separator                      *)
(*   "fp_of_valid_utf8"      the fingerprint is taken of the text made     *)
(*                           valid UTF-8 (runs of invalid bytes -> U+FFFD) *)
(*   "meaning_kept_quoted"   the meaning is taken as spelled between the   *)
(*                           quotes of the attribute, escapes unresolved   *)
(*   "tag_case_kept"         a tag's name is not lower-cased before it is  *)
(*                           turned into a placeholder name                *)
(*   "skips_call_params"     the pass that names placeholders does not     *)
(*                           reach messages inside {param} blocks of calls *)
(***************************************************************************)
EXTENDS SoyMsg
CONSTANTS MaxParts, MaxInner, Dev, OnlyCase
VARIABLES cas, todo, asg
vars == <<cas, todo, asg>>

Body  == MsgFamBody(cas)
\* the nodes in the order the (possibly deviating) implementation visits them
Nodes ==
  IF "depth_first" \in Dev
  THEN LET ps == MsgNodePartsDFS(Body) IN [i \in 1..Len(ps) |-> [p |-> ps[i], b |-> PartBase(ps[i])]]
  ELSE MsgNodes(Body)

EmptyAsg == [x \in {} |-> <<>>]

Family == MsgFamFlat(MaxParts) \cup MsgFamPlural(MaxInner) \cup MsgFamExtra \cup MsgFamNested \cup MsgFamSplit \cup MsgFamAttr
AllCases == IF OnlyCase # "" THEN {x \in Family : MsgFamId(x) = OnlyCase} ELSE Family

Init ==
  /\ cas \in AllCases
  /\ todo = MsgBaseSet(MsgNodes(MsgFamBody(cas)))   \* (the set does not depend on the order)
  /\ asg = EmptyAsg

FirstTodo ==
  LET o == MsgBaseOrder(Nodes) IN
  o[CHOOSE i \in 1..Len(o) : o[i] \in todo /\ \A j \in 1..(i - 1) : o[j] \notin todo]

Taken(a, cand, bases) ==
  IF "phnames_in_map_order" \in Dev THEN cand \in DOMAIN a ELSE cand \in bases

Put(a, k, v) == [x \in DOMAIN a \cup {k} |-> IF x = k THEN v ELSE a[x]]

\* name representatives j..n of group b, trying suffixes from suf upwards
RECURSIVE AssignMulti(_, _, _, _, _, _)
AssignMulti(a, b, j, n, suf, bases) ==
  IF j > n THEN a
  ELSE LET cand == b \o "_" \o ToString(suf) IN
       IF Taken(a, cand, bases) THEN AssignMulti(a, b, j, n, suf + 1, bases)
       ELSE AssignMulti(Put(a, cand, <<b, j>>), b, j + 1, n, suf + 1, bases)

NameGroup(b) ==
  /\ b \in todo
  /\ "phnames_in_map_order" \in Dev \/ b = FirstTodo
  /\ LET ns == Nodes n == Len(MsgGroupReps(ns, b)) IN
     asg' = IF n = 1 THEN Put(asg, b, <<b, 1>>) ELSE AssignMulti(asg, b, 1, n, 1, MsgBaseSet(ns))
  /\ todo' = todo \ {b}
  /\ UNCHANGED cas

Next == (\E b \in todo : NameGroup(b)) \/ (todo = {} /\ UNCHANGED vars)

Spec == Init /\ [][Next]_vars

\* the name the machine ends up giving to node n ("" = none)
FinalName(ns, n) ==
  LET r == <<n.b, MsgPosIn(n.p, MsgGroupReps(ns, n.b))>> IN
  IF \E k \in DOMAIN asg : asg[k] = r THEN CHOOSE k \in DOMAIN asg : asg[k] = r ELSE ""

FinalNames == LET ns == Nodes IN [i \in 1..Len(ns) |-> FinalName(ns, ns[i])]

(***************************************************************************)
(* (1) names are a function of the sequence of parts.                      *)
(***************************************************************************)
NamesAreFunction ==
  todo = {} => \/ FinalNames = MsgNamesOf(Nodes)
               \/ (PrintT(<<"CEX", MsgFamId(cas), FinalNames, MsgNamesOf(Nodes)>>) /\ FALSE)

\* (used with OnlyCase: prints every naming the machine can end with)
NamingReport == todo = {} => PrintT(<<"NAMING", MsgFamId(cas), FinalNames>>)

(***************************************************************************)
(* (2) properties of the names.                                            *)
(***************************************************************************)
NameProps ==
  todo = {} =>
  LET ns == Nodes nm == MsgNamesOf(ns) bs == MsgBaseSet(ns) IN
  /\ \A i \in 1..Len(ns) : nm[i] # ""
  /\ \A i, j \in 1..Len(ns) : (ns[i].p = ns[j].p) <=> (nm[i] = nm[j])
  /\ \A i \in 1..Len(ns) :
       LET b == ns[i].b reps == MsgGroupReps(ns, b) IN
       IF Len(reps) = 1 THEN nm[i] = b
       ELSE /\ nm[i] # b
            /\ MsgHasPrefix(nm[i], b \o "_")
            /\ nm[i] \notin bs
            \* suffixes are the first free integers, in order of first appearance
            /\ \E N \in 1..(Len(reps) + Cardinality(bs)) :
                 /\ nm[i] = b \o "_" \o ToString(N)
                 /\ Cardinality({M \in 1..N : (b \o "_" \o ToString(M)) \notin bs}) = MsgPosIn(ns[i].p, reps)

(***************************************************************************)
(* (3) the id.                                                             *)
(***************************************************************************)
IdModel(m) ==
  IF "meaning_kept_quoted" \in Dev THEN MsgIdAbs([m EXCEPT !.meaning = MsgQuoted(m.meaning)])
  ELSE IF "id_key_joined" \in Dev THEN MsgFp(MsgKeyString(m.body) \o m.meaning)
  ELSE IF "id_includes_desc" \in Dev THEN MsgMix(MsgIdAbs(m), MsgFp(m.desc))
  ELSE IF "id_drops_meaning" \in Dev THEN MsgFp(MsgKeyString(m.body))
  ELSE MsgIdAbs(m)

Mk(b, meaning, desc) == [body |-> b, meaning |-> meaning, desc |-> desc]

IdIgnoresDesc ==
  todo = {} => \A mn \in {"", "m"} : IdModel(Mk(Body, mn, "d1")) = IdModel(Mk(Body, mn, "another description"))

IdCountsMeaning ==
  todo = {} =>
    /\ IdModel(Mk(Body, "m", "d")) # IdModel(Mk(Body, "n", "d"))
    /\ IdModel(Mk(Body, "m", "d")) # IdModel(Mk(Body, "", "d"))

\* single-part edits of a flat body: the key changes exactly when the
\* placeholder string does (text, placeholder structure)
Subst(ix, pos, j) == [i \in 1..Len(ix) |-> IF i = pos THEN j ELSE ix[i]]
Remove(ix, pos) == [i \in 1..(Len(ix) - 1) |-> IF i < pos THEN ix[i] ELSE ix[i + 1]]

KeyFollowsPhString ==
  (todo = {} /\ cas.kind = "flat") =>
    LET b == Body ps == PlaceholderString(b) ks == MsgKeyString(b) IN
    /\ \A pos \in 1..Len(cas.ix), j \in 1..Len(PoolC10) :
         LET b2 == MsgPick(PoolC10, Subst(cas.ix, pos, j)) IN
         (PlaceholderString(b2) = ps) <=> (MsgKeyString(b2) = ks)
    /\ \A pos \in 1..Len(cas.ix) :
         LET b2 == MsgPick(PoolC10, Remove(cas.ix, pos)) IN
         PlaceholderString(b2) # ps /\ MsgKeyString(b2) # ks

\* plural structure is part of the key: changing the case value, the
\* subject's name or a case body changes the key
PluralInKey ==
  (todo = {} /\ cas.kind = "plural") =>
    LET ks == MsgKeyString(Body) IN
    /\ \A j \in 1..Len(MsgCaseSets) : j # cas.cs /\ Len(MsgCaseSets[j]) = Len(MsgCaseSets[cas.cs]) =>
         MsgKeyString(MsgFamBody([cas EXCEPT !.cs = j])) # ks
    /\ \A db \in MsgIxSeqs(1, Len(MsgInnerPool)) :
         LET b2 == MsgFamBody([cas EXCEPT !.db = db]) IN
         (PlaceholderString(b2) = PlaceholderString(Body)) <=> (MsgKeyString(b2) = ks)

\* text and meaning are two arguments of the id, not one joined string: every
\* split of a string into text | meaning gives another id
IdSeparatesTextAndMeaning ==
  (todo = {} /\ cas.kind = "split") =>
    \A i \in 1..Len(MsgSplitStrings[cas.s]) :
       i # cas.at => IdModel(Mk(Body, MsgFamMeaning(cas), "d"))
                     # IdModel(Mk(MsgFamBody([cas EXCEPT !.at = i]), MsgFamMeaning([cas EXCEPT !.at = i]), "d"))

\* the meaning that enters the id is the text the attribute denotes; the
\* description (the same awkward texts) does not enter
MeaningIsItsText ==
  (todo = {} /\ cas.kind = "attr") =>
    \A j \in 1..Len(MsgAttrTexts) :
       IdModel(Mk(Body, MsgFamMeaning(cas), MsgAttrTexts[j])) = MsgIdAbs(Mk(Body, MsgFamMeaning(cas), "d"))

\* the id is a function of the BYTES of the text: different byte strings, different ids
\* (checked once, on one state)
IdOfBytes(b) == IF "fp_of_valid_utf8" \in Dev THEN MsgFpBytes(MsgToValid(b)) ELSE MsgFpBytes(b)
BytesKeepIdentity ==
  (cas.kind = "split" /\ cas.s = 1 /\ cas.at = 1 /\ todo = {}) =>
    \A i, j \in 1..Len(MsgByteTexts) : i # j => IdOfBytes(MsgByteTexts[i]) # IdOfBytes(MsgByteTexts[j])

\* the names are those of the breadth-first visiting order, whatever the order
\* the implementation collects the nodes in
BreadthFirst ==
  todo = {} =>
    LET bfs == MsgNodes(Body) bn == MsgNamesOf(bfs) ns == Nodes IN
    \A i \in 1..Len(ns) : FinalName(ns, ns[i]) = MsgNameOfPart(bfs, bn, ns[i].p)

\* the base name of a tag does not depend on the letter case of its name
DevTagBase(t) ==
  IF "tag_case_kept" \in Dev
  THEN LET raw == MsgAlnumRun(t, IF MsgTagIsEnd(t) THEN 3 ELSE 2)
           nm == IF MsgPrettyTag(MsgToLower(raw)) # MsgToLower(raw) THEN MsgPrettyTag(MsgToLower(raw)) ELSE raw IN
       ToUpperUnderscore((IF MsgTagIsEnd(t) THEN "END_" ELSE IF MsgTagIsSelf(t) THEN "" ELSE "START_") \o nm)
  ELSE MsgTagBase(t)

TagCaseInsensitive ==
  todo = {} =>
    LET ns == MsgNodes(Body) IN
    \A i \in 1..Len(ns) : ns[i].p.k = "tag" =>
       /\ DevTagBase(ns[i].p.s) = ns[i].b
       /\ MsgTagBase(MsgToLower(ns[i].p.s)) = ns[i].b

\* (4) where the message sits does not matter
NamesIn(kind, ns) ==
  IF "skips_call_params" \in Dev /\ kind \in {"call-param", "nested"}
  THEN [i \in 1..Len(ns) |-> ""]        \* never processed: no names (and id 0)
  ELSE MsgNamesOf(ns)

ContextFree ==
  todo = {} => LET ns == Nodes IN
               \A i \in 1..Len(MsgContextKinds) : NamesIn(MsgContextKinds[i], ns) = MsgNamesOf(ns)

WellFormedFamily == MsgWellFormed(Body)
=============================================================================
