------------------------------- MODULE SoyNaN -------------------------------
(***************************************************************************)
(* Comparisons and conditions on the "not a number" float (family F10).    *)
(* SoyValues models floats as dyadic rationals, so NaN is not a value      *)
(* there and division by zero is left Unspec.  What the language fixes for *)
(* NaN needs no arithmetic: every ordered comparison and == with a NaN     *)
(* operand is false, != is true, NaN is falsy.  This module states that    *)
(* table over symbolic operands and exports every case; the harness spells *)
(* NaN as ($z / $z) with $z = 0 and renders the cases with the real code.  *)
(***************************************************************************)
EXTENDS Integers, Sequences, TLC, Json

CONSTANT Dev   \* {} | {"nan_counts_as_equal"} | {"nan_truthy"}

Ops == {"lt", "le", "gt", "ge", "eq", "ne"}
Operands == {"nan", "zero", "one", "minus", "half"}
\* twice the numeric value, to stay in the integers
Twice(x) == CASE x = "zero" -> 0 [] x = "one" -> 2 [] x = "minus" -> -2 [] OTHER -> 1

\* three-way comparison as an implementation built on "compare" would see it:
\* NaN is unordered; a careless implementation reports 0 ("equal")
Ordered(op, c) == CASE op = "lt" -> c < 0 [] op = "le" -> c <= 0 [] op = "gt" -> c > 0
                    [] op = "ge" -> c >= 0 [] op = "eq" -> c = 0 [] OTHER -> c # 0

Cmp(op, a, b) ==
  IF a = "nan" \/ b = "nan" THEN
       (IF "nan_counts_as_equal" \in Dev THEN Ordered(op, 0) ELSE op = "ne")
  ELSE Ordered(op, Twice(a) - Twice(b))

Truthy(a) == CASE a = "nan" -> "nan_truthy" \in Dev [] a = "zero" -> FALSE [] OTHER -> TRUE

CmpCases == {[kind |-> "cmp", op |-> o, a |-> x, b |-> y] : o \in Ops, x \in Operands, y \in Operands}
CondCases == {[kind |-> k, a |-> x] : k \in {"tern", "not", "if", "and", "or"}, x \in Operands}

Expected(c) ==
  IF c.kind = "cmp" THEN Cmp(c.op, c.a, c.b)
  ELSE CASE c.kind = "not" -> ~Truthy(c.a) [] OTHER -> Truthy(c.a)

VARIABLE cur
Init == cur \in CmpCases \cup CondCases
Next == UNCHANGED cur

\* what the language fixes (checked against the deviations as a self-test)
NaNUnordered == (cur.kind = "cmp" /\ "nan" \in {cur.a, cur.b}) => (Expected(cur) = (cur.op = "ne"))
NaNFalsy == (cur.kind # "cmp" /\ cur.a = "nan") => (Expected(cur) = (cur.kind = "not"))

EmitCase == PrintT(ToJson([c |-> cur, exp |-> Expected(cur)]))
=============================================================================
