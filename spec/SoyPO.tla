-------------------------------- MODULE SoyPO --------------------------------
(***************************************************************************)
(* Extraction of messages to a PO (gettext) catalogue, translation,        *)
(* loading and rendering with a catalogue -- the round trip of property    *)
(* C11.  Built on SoyMsg (names, placeholder strings, ids) and SoyExpr     *)
(* (values of the print placeholders).                                     *)
(*                                                                         *)
(*   POExtract(m)    the PO entry of a message: msgctxt (= meaning),       *)
(*                   msgid, msgid_plural, references id= / var=, comment   *)
(*   POValidate(b)   a message is PO-representable iff its plural (if any) *)
(*                   is the sole child and has exactly {case 1}, {default} *)
(*   POTranslate     identity / reversing translation of an entry for a    *)
(*                   locale (one msgstr per plural form of the locale)     *)
(*   POLoad          entry + msgstrs -> catalogue message (parts parsed    *)
(*                   out of the strings: text and {NAME})                  *)
(*   PORender        rendering a message with a catalogue message: text    *)
(*                   as is, {NAME} -> the live value of the placeholder    *)
(*                   called NAME, plural -> the form the locale's rule     *)
(*                   selects for the subject's value                       *)
(*   PORenderSrc     rendering without catalogue (source text; explicit    *)
(*                   plural cases, else default)                           *)
(*                                                                         *)
(* Named deviations (constant PODev; {} = reference):                      *)
(*   "lookup_by_position"  {NAME} is resolved to the k-th placeholder of   *)
(*                         the message for the k-th {..} of the string     *)
(*   "plural_index_shift"  the plural form after the selected one is used  *)
(*   "extract_no_var"      the extractor forgets the var= reference        *)
(*   "same_by_flat_text"   print placeholders are identified by their      *)
(*                         printed text without grouping                   *)
(*   "same_ignores_directives"  ... by their expression, whatever the      *)
(*                         print directives                                *)
(*   "lookup_cache_by_name"  within one template body a placeholder name   *)
(*                         keeps meaning the node found for it first,      *)
(*                         also in a later, different message              *)
(*   "resume_after_close_brace"  the catalogue-string tokeniser, on a "{"    *)
(*                         that does not open a placeholder, resumes after *)
(*                         the next "}" instead of after the "{"           *)
(*   "plural_by_magnitude" the plural form is selected for |n|             *)
(*   "extra_cases_dropped" a plural with {case 1} and FURTHER explicit cases *)
(*                         is accepted for extraction; the further cases   *)
(*                         are not in the catalogue                        *)
(*   "least_specific_wins" of the catalogues on a locale's fallback chain  *)
(*                         the most general one is used                    *)
(*   "builtin_rule_wins"   the plural form is selected by the built-in     *)
(*                         rule of the catalogue's locale instead of the   *)
(*                         rule its Plural-Forms header declares           *)
(***************************************************************************)
EXTENDS SoyMsg, SoyExpr

CONSTANT PODev

(***************************************************************************)
(* Validation and extraction.                                              *)
(***************************************************************************)
POValidate(body) ==
  /\ MsgWellFormed(body)
  /\ MsgHasPlural(body) => /\ Len(body[1].cases) = 1
                           /\ body[1].cases[1].v = 1

\* naming context of a message (nodes and their names); the deviation
\* identifies print placeholders by grouping-free text
PONodes(body) == MsgNodes(body)

POSameFlat(p, q) ==
  IF p.k = "print" /\ q.k = "print"
  THEN (IF "same_ignores_directives" \in PODev THEN p.e = q.e ELSE MsgFlatExpr(p.e) = MsgFlatExpr(q.e))
  ELSE p = q

POSameDev == "same_by_flat_text" \in PODev \/ "same_ignores_directives" \in PODev

\* (deviation) representative of p: the first node that is "the same"
POCanon(nodes, p) ==
  IF POSameDev
  THEN nodes[CHOOSE i \in 1..Len(nodes) : POSameFlat(nodes[i].p, p) /\ \A j \in 1..(i - 1) : ~POSameFlat(nodes[j].p, p)].p
  ELSE p

PONames(body) ==
  LET ns == PONodes(body) IN
  IF POSameDev
  THEN LET cn == [i \in 1..Len(ns) |-> [p |-> POCanon(ns, ns[i].p), b |-> ns[i].b]]
           nm == MsgNamesOf(cn) IN nm
  ELSE MsgNamesOf(ns)

POPhBody(body, sub) == LET ns == PONodes(body) IN MsgPhBody(ns, PONames(body), sub, TRUE)

POPluralVar(body) ==
  IF MsgHasPlural(body) THEN LET ns == PONodes(body) IN MsgNameOfPart(ns, PONames(body), body[1]) ELSE ""

POExtract(m) ==
  LET b == m.body pl == MsgHasPlural(b) IN
  [ctxt         |-> m.meaning,
   comment      |-> m.desc,
   msgid        |-> IF pl THEN POPhBody(b, b[1].cases[1].body) ELSE POPhBody(b, b),
   msgid_plural |-> IF pl THEN POPhBody(b, b[1].dflt) ELSE "",
   var          |-> IF "extract_no_var" \in PODev THEN "" ELSE POPluralVar(b),
   id           |-> MsgIdAbs(m)]

\* the C11 domain: representable, and a msgid gettext can carry (the empty
\* msgid is the catalogue header)
PODomain(body) ==
  POValidate(body) /\ POExtract([body |-> body, meaning |-> "", desc |-> ""]).msgid # ""

(***************************************************************************)
(* Locales and their plural rules (the standard gettext formulas).         *)
(***************************************************************************)
POLocales == <<"ja", "en", "ru">>

\* A rule is named after the locale whose standard gettext rule it is.
PONPlurals(loc) == CASE loc = "ja" -> 1 [] loc = "en" -> 2 [] loc = "fr" -> 2 [] loc = "ru" -> 3 [] loc = "cs" -> 3

POPluralForms(loc) ==
  CASE loc = "ja" -> "nplurals=1; plural=0;"
    [] loc = "en" -> "nplurals=2; plural=(n != 1);"
    [] loc = "fr" -> "nplurals=2; plural=(n > 1);"
    [] loc = "ru" -> "nplurals=3; plural=(n%10==1 && n%100!=11 ? 0 : n%10>=2 && n%10<=4 && (n%100<10 || n%100>=20) ? 1 : 2);"
    [] loc = "cs" -> "nplurals=3; plural=(n==1) ? 0 : (n>=2 && n<=4) ? 1 : 2;"

\* index of the plural form: the Plural-Forms expression evaluated on the count
\* AS IT IS, for every integer (% is C's: the sign of the dividend; so under
\* the ru rule a negative count is never "one" or "few")
POPluralIndex(loc, n) ==
  CASE loc = "ja" -> 0
    [] loc = "en" -> IF n # 1 THEN 1 ELSE 0
    [] loc = "fr" -> IF n > 1 THEN 1 ELSE 0
    [] loc = "ru" -> LET u == TruncMod(n, 10) h == TruncMod(n, 100) IN
                     IF u = 1 /\ h # 11 THEN 0
                     ELSE IF u >= 2 /\ u <= 4 /\ (h < 10 \/ h >= 20) THEN 1
                     ELSE 2
    [] loc = "cs" -> IF n = 1 THEN 0 ELSE IF n >= 2 /\ n <= 4 THEN 1 ELSE 2

\* A catalogue is a file for a LOCALE whose header declares a RULE; the two
\* need not agree (the project's own testdata/en.po declares a three-form
\* rule).  The declared rule selects the form.  POCatalogueLocales(rule):
\* the locales for which a catalogue with that header is loaded in the
\* binding; POBuiltinRule(l): the rule the gettext library knows for l.
POCatalogueLocales(rule) ==
  CASE rule = "ja" -> <<"ja">>
    [] rule = "en" -> <<"en", "fr">>
    [] rule = "ru" -> <<"ru", "ja">>
    [] rule = "cs" -> <<"cs", "en">>
    [] OTHER -> <<rule>>
POBuiltinRule(l) == l

POEffectiveRule(rule, locale) ==
  IF "builtin_rule_wins" \in PODev THEN POBuiltinRule(locale) ELSE rule

\* Which catalogue a locale name selects.  A locale is [lang, script, region]
\* ("" = not given); its fallback chain, by increasing generality:
\* lang-script-region (if a region is given), lang-script (if a script is
\* given), lang.  A catalogue named exactly as requested wins; else the FIRST
\* of the chain for which a catalogue exists; else none.
POLoc(l, sc, r) == [lang |-> l, script |-> sc, region |-> r]
POChain(loc) ==
  (IF loc.region # "" THEN <<loc>> ELSE <<>>)
  \o (IF loc.script # "" THEN <<POLoc(loc.lang, loc.script, "")>> ELSE <<>>)
  \o <<POLoc(loc.lang, "", "")>>
POResolve(avail, loc) ==
  LET ch == POChain(loc)
      hits == SelectSeq(ch, LAMBDA x : x \in avail) IN
  IF loc \in avail THEN <<loc>>
  ELSE IF hits = <<>> THEN <<>>
  ELSE IF "least_specific_wins" \in PODev THEN <<hits[Len(hits)]>> ELSE <<hits[1]>>

(***************************************************************************)
(* Strings <-> parts.  A catalogue string is text with {NAME} where NAME   *)
(* is a non-empty run of A-Z, 0-9, _ .                                     *)
(***************************************************************************)
POTxt(s) == [t |-> "txt", s |-> s]
POPh(n)  == [t |-> "ph", name |-> n]

POIsNameCh(ch) == MsgIsUpper(ch) \/ MsgIsDigit(ch) \/ ch = "_"

RECURSIVE PONameEnd(_, _)
PONameEnd(s, j) == IF j <= Len(s) /\ POIsNameCh(MsgCh(s, j)) THEN PONameEnd(s, j + 1) ELSE j

POPush(acc, txt) == IF txt = "" THEN acc ELSE Append(acc, POTxt(txt))

RECURSIVE POPartsFrom(_, _, _, _)
POPartsFrom(s, i, txt, acc) ==
  IF i > Len(s) THEN POPush(acc, txt)
  ELSE IF MsgCh(s, i) = "{" THEN
         LET j == PONameEnd(s, i + 1) IN
         IF j > i + 1 /\ j <= Len(s) /\ MsgCh(s, j) = "}"
         THEN POPartsFrom(s, j + 1, "", Append(POPush(acc, txt), POPh(SubSeq(s, i + 1, j - 1))))
         ELSE POPartsFrom(s, i + 1, txt \o "{", acc)
  ELSE POPartsFrom(s, i + 1, txt \o MsgCh(s, i), acc)

POParts(s) == POPartsFrom(s, 1, "", <<>>)

\* The tokeniser as the LOADER runs it.  Reference: the one above -- a
\* placeholder is exactly "{" [A-Z0-9_]+ "}", found leftmost; any other "{" is
\* one character of text and scanning goes on right behind it.
RECURSIVE PONextClose(_, _)
PONextClose(s, j) == IF j > Len(s) THEN 0 ELSE IF MsgCh(s, j) = "}" THEN j ELSE PONextClose(s, j + 1)

RECURSIVE POPartsSkipping(_, _, _, _)
POPartsSkipping(s, i, txt, acc) ==       \* the deviation
  IF i > Len(s) THEN POPush(acc, txt)
  ELSE IF MsgCh(s, i) = "{" THEN
         LET k == PONextClose(s, i + 1) IN
         IF k = 0 THEN POPush(acc, txt \o MsgSuffixStr(s, i))
         ELSE IF k > i + 1 /\ PONameEnd(s, i + 1) = k
              THEN POPartsSkipping(s, k + 1, "", Append(POPush(acc, txt), POPh(SubSeq(s, i + 1, k - 1))))
              ELSE POPartsSkipping(s, k + 1, txt \o SubSeq(s, i, k), acc)
  ELSE POPartsSkipping(s, i + 1, txt \o MsgCh(s, i), acc)

POPartsLoad(s) ==
  IF "resume_after_close_brace" \in PODev THEN POPartsSkipping(s, 1, "", <<>>) ELSE POParts(s)

RECURSIVE POUnparts(_)
POUnparts(q) ==
  IF q = <<>> THEN ""
  ELSE (IF Head(q).t = "txt" THEN Head(q).s ELSE "{" \o Head(q).name \o "}") \o POUnparts(Tail(q))

POReverse(q) == [i \in 1..Len(q) |-> q[Len(q) + 1 - i]]

(***************************************************************************)
(* Translation strategies.  "id": every form says what the source says     *)
(* (form 0 = singular text, the others = plural text; a one-form locale    *)
(* has only the plural text); "rev": the same with the order of the parts  *)
(* reversed.  In locales other than the two-form one each form is marked   *)
(* [i] so that the selected form is visible in the output.                 *)
(***************************************************************************)
POMark(loc, i) == IF loc = "en" THEN "" ELSE "[" \o ToString(i) \o "]"

POFormSource(e, loc, i) ==    \* i = 0-based form index
  IF e.msgid_plural = "" /\ e.var = "" THEN e.msgid
  ELSE IF PONPlurals(loc) = 1 THEN e.msgid_plural
  ELSE IF i = 0 THEN e.msgid ELSE e.msgid_plural

POIsPluralEntry(e) == e.msgid_plural # ""

POTranslate(strategy, e, loc) ==
  LET nf == IF POIsPluralEntry(e) THEN PONPlurals(loc) ELSE 1
      one(i) == LET src == POFormSource(e, loc, i)
                    str == IF strategy = "rev" THEN POUnparts(POReverse(POParts(src))) ELSE src IN
                (IF POIsPluralEntry(e) THEN POMark(loc, i) ELSE "") \o str IN
  [k \in 1..nf |-> one(k - 1)]

(***************************************************************************)
(* Loading: a catalogue message is either plain parts or a plural with one *)
(* parts-sequence per form.  (An entry without var= and with one msgstr is *)
(* plain.)                                                                 *)
(***************************************************************************)
POLoad(e, strs) ==
  IF e.var = "" /\ Len(strs) = 1 THEN [plural |-> FALSE, parts |-> POPartsLoad(strs[1])]
  ELSE [plural |-> TRUE, var |-> e.var, forms |-> [i \in 1..Len(strs) |-> POPartsLoad(strs[i])]]

(***************************************************************************)
(* Rendering.  Outcomes: [t|->"out", s] | [t|->"err"] | [t|->"unspec"].    *)
(***************************************************************************)
POOut(s) == [t |-> "out", s |-> s]

\* one placeholder node: its live value / the tag text
\* print directives on plain text (no HTML-special characters): truncate:N,false
\* keeps the first N characters; noAutoescape / id change nothing; anything
\* else is outside the model
RECURSIVE POApplyDirs(_, _)
POApplyDirs(x, dirs) ==
  IF dirs = <<>> \/ x.t # "out" THEN x
  ELSE LET d == Head(dirs) IN
       IF d.name \in {"noAutoescape", "id"} THEN POApplyDirs(x, Tail(dirs))
       ELSE IF d.name = "truncate" /\ Len(d.args) = 2 /\ d.args[1].k = "int" /\ d.args[2] = MsgBool(FALSE)
            THEN POApplyDirs(POOut(IF Len(x.s) > d.args[1].v THEN SubSeq(x.s, 1, d.args[1].v) ELSE x.s), Tail(dirs))
       ELSE Unspec

PONodeOut(p, env) ==
  IF p.k = "tag" THEN POOut(p.s)
  ELSE IF "dirs" \in DOMAIN p THEN POApplyDirs(PrintOutcome(p.e, env), p.dirs)
  ELSE PrintOutcome(p.e, env)

POCat(a, b) == IF a.t # "out" THEN a ELSE IF b.t # "out" THEN b ELSE POOut(a.s \o b.s)

RECURSIVE PORenderBody(_, _)
PORenderBody(body, env) ==    \* a source body without plural
  IF body = <<>> THEN POOut("")
  ELSE POCat(IF Head(body).k = "text" THEN POOut(Head(body).s) ELSE PONodeOut(Head(body), env),
             PORenderBody(Tail(body), env))

POSubject(p, env) == Eval(p.e, env)

PORenderSrc(body, env) ==
  IF ~MsgHasPlural(body) THEN PORenderBody(body, env)
  ELSE LET p == body[1] n == POSubject(p, env) IN
       IF IsBad(n) THEN n
       ELSE IF n.t # "int" THEN Err
       ELSE IF \E i \in 1..Len(p.cases) : p.cases[i].v = n.v
            THEN PORenderBody(p.cases[CHOOSE i \in 1..Len(p.cases) :
                                 p.cases[i].v = n.v /\ \A j \in 1..(i - 1) : p.cases[j].v # n.v].body, env)
            ELSE PORenderBody(p.dflt, env)

\* the placeholder (not plural) nodes, in visiting order, with their names
POPhNodes(body) ==
  LET ns == PONodes(body) nm == PONames(body)
      idx == SelectSeq([i \in 1..Len(ns) |-> i], LAMBDA i : ns[i].p.k # "plural") IN
  [k \in 1..Len(idx) |-> [p |-> ns[idx[k]].p, name |-> nm[idx[k]]]]

RECURSIVE PORenderParts(_, _, _, _)
PORenderParts(phs, parts, env, k) ==    \* k = number of {..} seen so far
  IF parts = <<>> THEN POOut("")
  ELSE LET h == Head(parts) IN
       IF h.t = "txt" THEN POCat(POOut(h.s), PORenderParts(phs, Tail(parts), env, k))
       ELSE LET found ==
                  IF "lookup_by_position" \in PODev
                  THEN (IF k + 1 <= Len(phs) THEN <<phs[k + 1]>> ELSE <<>>)
                  ELSE SelectSeq(phs, LAMBDA n : n.name = h.name) IN
            IF found = <<>> THEN Err
            ELSE POCat(PONodeOut(found[1].p, env), PORenderParts(phs, Tail(parts), env, k + 1))

PORender(body, cm, loc, env) ==
  LET phs == POPhNodes(body) IN
  IF ~cm.plural THEN PORenderParts(phs, cm.parts, env, 0)
  ELSE IF ~(MsgHasPlural(body) /\ POPluralVar(body) = cm.var) THEN Err
  ELSE LET n == POSubject(body[1], env) IN
       IF IsBad(n) THEN n
       ELSE IF n.t # "int" THEN Err
       ELSE LET cnt == IF "plural_by_magnitude" \in PODev THEN Abs(n.v) ELSE n.v
                ix == POPluralIndex(loc, cnt) + (IF "plural_index_shift" \in PODev THEN 1 ELSE 0) IN
            IF ix + 1 > Len(cm.forms) THEN Err
            ELSE PORenderParts(phs, cm.forms[ix + 1], env, 0)

\* the whole pipeline for one message
PORoundTrip(m, strategy, loc, env) ==
  LET e == POExtract(m) IN PORender(m.body, POLoad(e, POTranslate(strategy, e, loc)), loc, env)

\* ... with the catalogue loaded for a locale other than the rule's own
PORoundTripIn(m, strategy, rule, locale, env) ==
  LET e == POExtract(m) IN
  PORender(m.body, POLoad(e, POTranslate(strategy, e, rule)), POEffectiveRule(rule, locale), env)

(***************************************************************************)
(* What the round trip must give, stated without the pipeline.             *)
(***************************************************************************)
\* rendered segments of a plural-free body, one per part
POSegments(body, env) ==
  [i \in 1..Len(body) |-> IF body[i].k = "text" THEN POOut(body[i].s) ELSE PONodeOut(body[i], env)]

RECURSIVE POCatAll(_)
POCatAll(q) == IF q = <<>> THEN POOut("") ELSE POCat(Head(q), POCatAll(Tail(q)))

\* adjacent text parts are one segment of the catalogue string
RECURSIVE POMergeText(_)
POMergeText(body) ==
  IF Len(body) < 2 THEN body
  ELSE IF body[1].k = "text" /\ body[2].k = "text"
       THEN POMergeText(<<MText(body[1].s \o body[2].s)>> \o SubSeq(body, 3, Len(body)))
       ELSE <<body[1]>> \o POMergeText(Tail(body))

\* the body a locale's form i stands for
POFormBody(body, loc, i) ==
  IF ~MsgHasPlural(body) THEN body
  ELSE IF PONPlurals(loc) = 1 \/ i > 0 THEN body[1].dflt ELSE body[1].cases[1].body

POExpected(body, strategy, loc, env) ==
  IF ~MsgHasPlural(body)
  THEN LET segs == POSegments(POMergeText(body), env) IN
       POCatAll(IF strategy = "rev" THEN POReverse(segs) ELSE segs)
  ELSE LET n == POSubject(body[1], env) IN
       IF IsBad(n) THEN n
       ELSE IF n.t # "int" THEN Err
       ELSE LET i == POPluralIndex(loc, n.v)
                segs == POSegments(POMergeText(POFormBody(body, loc, i)), env) IN
            POCat(POOut(POMark(loc, i)), POCatAll(IF strategy = "rev" THEN POReverse(segs) ELSE segs))

\* several (plural-free) messages in one template body: each is rendered on
\* its own; the output is the concatenation, separated by sep
RECURSIVE POPhNodesUpTo(_, _)
POPhNodesUpTo(ms, i) == IF i = 0 THEN <<>> ELSE POPhNodesUpTo(ms, i - 1) \o POPhNodes(ms[i].body)

PORenderSeqFrom(ms, i, strategy, rule, env, sep) ==
  LET RECURSIVE go(_)
      go(k) ==
        IF k > Len(ms) THEN POOut("")
        ELSE LET e == POExtract(ms[k])
                 cm == POLoad(e, POTranslate(strategy, e, rule))
                 phs == IF "lookup_cache_by_name" \in PODev THEN POPhNodesUpTo(ms, k) ELSE POPhNodes(ms[k].body) IN
             POCat(POCat(POOut(IF k > 1 THEN sep ELSE ""), PORenderParts(phs, cm.parts, env, 0)), go(k + 1))
  IN go(i)
PORenderSeq(ms, strategy, rule, env, sep) == PORenderSeqFrom(ms, 1, strategy, rule, env, sep)

RECURSIVE POExpectedSeq(_, _, _, _, _)
POExpectedSeq(ms, strategy, rule, env, sep) ==
  IF ms = <<>> THEN POOut("")
  ELSE POCat(POExpected(ms[1].body, strategy, rule, env),
             IF Len(ms) = 1 THEN POOut("") ELSE POCat(POOut(sep), POExpectedSeq(Tail(ms), strategy, rule, env, sep)))

(***************************************************************************)
(* C11 pools: coherent data (a, b maps; y, y_1 strings; n the number).     *)
(* (Base name Y rather than X: the id key of a message is its placeholder  *)
(* string WITHOUT braces, so {X}{X}{X} and {XXX} have the same id by       *)
(* design; two such messages cannot live in one catalogue.)                *)
(***************************************************************************)
POVarN == MsgVar("n")
PON1   == MsgBin("add", POVarN, MsgInt(1))

PoolC11 == <<
  MPrint(MsgRef("a", <<MsgKeyAcc("y")>>)),                            \* 1  {$a.y}       Y
  MPrint(MsgRef("b", <<MsgKeyAcc("y")>>)),                            \* 2  {$b.y}       Y
  MPrint(MsgVar("y")),                                                \* 3  {$y}         Y
  MPrint(MsgVar("y_1")),                                              \* 4  {$y_1}       Y_1
  MPrint(PON1),                                                       \* 5  {$n + 1}     XXX
  MPrint(MsgBin("mul", PON1, MsgInt(2))),                             \* 6  {($n+1)*2}   XXX
  MPrint(MsgBin("add", POVarN, MsgBin("mul", MsgInt(1), MsgInt(2)))), \* 7  {$n+1*2}     XXX
  MTag("<a>"),                                                        \* 8
  MTag("<a href=x>"),                                                 \* 9
  MTag("</a>"),                                                       \* 10
  MTag("<br/>"),                                                      \* 11
  MText("t"),                                                         \* 12
  MText(" u "),                                     \* 13  (spaces are part of the text)
  MPrintD(MsgVar("y"), <<MDir("truncate", <<MsgInt(1), MsgBool(FALSE)>>)>>) >>   \* 14  {$y|truncate:1,false}  Y

POInnerPool == << MPrint(POVarN), MPrint(MsgVar("y")), PoolC11[1], MPrint(PON1), MText("t"), MTag("<a>"), PoolC11[14] >>
POSubjects  == << POVarN, PON1 >>
POCaseSets  == << <<1>>, <<0, 1>>, <<2>>, <<>> >>      \* only the first is PO-representable

POFamFlat(n) == {[kind |-> "flat", ix |-> ix] : ix \in MsgIxSeqs(n, Len(PoolC11))}

\* literal braces and things that look like placeholders but are not, next to
\* real placeholders ({lb} / {rb} in the source; "{1X}" and the like, which ARE
\* names of the catalogue syntax, cannot be told from placeholders by design and
\* are left out)
POBracePool == << MText("{"), MText("}"), MText("{}"), MText("{lower} "), MText("{A B}"), MText(", 3"),
                  PoolC11[3], PoolC11[1], PoolC11[5] >>
POFamBrace(n) == {[kind |-> "brace", ix |-> ix] : ix \in MsgIxSeqs(n, Len(POBracePool)) \ {<<>>}}

\* representable plurals: case 1 + default, non-empty bodies of <= n parts
POFamPlural(n) ==
  LET bodies == MsgIxSeqs(n, Len(POInnerPool)) \ {<<>>} IN
  {[kind |-> "plural", subj |-> s, cs |-> 1, cb |-> <<cb>>, db |-> db] :
      s \in 1..Len(POSubjects), cb \in bodies, db \in bodies}

\* Plurals outside the shape PO can carry: no {case 1}, {case 0}, several
\* explicit cases (with {case 1} first, last, twice), only {default}.  Every
\* case says something different, so dropping one shows.  Such a message must
\* be REFUSED by the extraction -- or, if it is extracted, the identity
\* translation must still render what the source renders for every count.
POBadCaseSets == << <<0, 1>>, <<2>>, <<>>, <<1, 2>>, <<1, 2, 5>>, <<1, 1>>, <<0>>, <<2, 1>> >>
POBadBody(j) ==
  << MPlural(POVarN,
             [i \in 1..Len(POBadCaseSets[j]) |->
                MCase(POBadCaseSets[j][i], <<MText("c" \o ToString(i) \o "=" \o ToString(POBadCaseSets[j][i]) \o " "), MPrint(POVarN)>>)],
             <<MText("d "), MPrint(POVarN)>>) >>
POFamInvalid == {[kind |-> "invalid", j |-> j] : j \in 1..Len(POBadCaseSets)}

\* what the (possibly deviating) extraction accepts
POValidateDev(body) ==
  IF "extra_cases_dropped" \in PODev
  THEN MsgWellFormed(body) /\ (MsgHasPlural(body) => Len(body[1].cases) >= 1 /\ body[1].cases[1].v = 1)
  ELSE POValidate(body)

\* extra messages: placeholders over globals
POExtraBodies == <<
  << MText("Hi "), MPrint(MsgGlobal("GLOB")), MText("!") >>,
  << MPrint(MsgGlobal("app.glob")), MText(" and "), MPrint(MsgVar("y")) >>,
  \* injected data inside a message (same base name as a parameter's)
  << MText("Welcome to "), MPrint(MsgRef("ij", <<MsgKeyAcc("who")>>)), MText(", "), MPrint(MsgVar("y")), MText("!") >>,
  << MPrint(MsgRef("ij", <<MsgKeyAcc("y")>>)), MText(" / "), MPrint(MsgVar("y")), MText(" / "), MPrint(MsgRef("ij", <<MsgKeyAcc("y")>>)) >>
>>
POFamExtra == {[kind |-> "extra", i |-> i] : i \in 1..Len(POExtraBodies)}

POFamBody(d) ==
  IF d.kind = "flat" THEN MsgPick(PoolC11, d.ix)
  ELSE IF d.kind = "invalid" THEN POBadBody(d.j)
  ELSE IF d.kind = "brace" THEN MsgPick(POBracePool, d.ix)
  ELSE IF d.kind = "extra" THEN POExtraBodies[d.i]
  ELSE << MPlural(POSubjects[d.subj],
                  [i \in 1..Len(d.cb) |-> MCase(POCaseSets[d.cs][i], MsgPick(POInnerPool, d.cb[i]))],
                  MsgPick(POInnerPool, d.db)) >>

POFamId(d) ==
  IF d.kind = "flat" THEN "F" \o MsgIxStr(d.ix)
  ELSE IF d.kind = "brace" THEN "B" \o MsgIxStr(d.ix)
  ELSE IF d.kind = "invalid" THEN "I" \o ToString(d.j)
  ELSE IF d.kind = "extra" THEN "X" \o ToString(d.i)
  ELSE "P" \o ToString(d.subj) \o "c" \o ToString(d.cs) \o ":" \o MsgIxStrs(d.cb) \o "d" \o MsgIxStr(d.db)

\* sharding of the families over several TLC processes
RECURSIVE POSumSeq(_)
POSumSeq(q) == IF q = <<>> THEN 0 ELSE Head(q) + POSumSeq(Tail(q))
RECURSIVE POSumSeqs(_)
POSumSeqs(q) == IF q = <<>> THEN 0 ELSE POSumSeq(Head(q)) + POSumSeqs(Tail(q))
POShardOf(d, nshards) ==
  IF d.kind \in {"flat", "brace"} THEN POSumSeq(d.ix) % nshards
  ELSE IF d.kind = "extra" THEN d.i % nshards
  ELSE IF d.kind = "invalid" THEN d.j % nshards
  ELSE (d.subj + d.cs + POSumSeqs(d.cb) + POSumSeq(d.db)) % nshards

\* data
POEnv(n) ==
  [vars |-> [a |-> M([y |-> S("ay")]), b |-> M([y |-> S("by")]), y |-> S("yv"), y_1 |-> S("y1v"), n |-> I(n)],
   ij |-> M([who |-> S("iv"), y |-> S("ijy")]), glob |-> [g \in {"GLOB", "app.glob"} |-> S("gv")]]

\* counts: the boundaries of the rules, negative ones, a large one (TLC's
\* integers are 32 bit; $n + 1 must stay below 2^30)
PONs == <<0, 1, 2, 3, 5, 11, 21, 22, 101, -1, -2, -7, -11, 1000000021>>
\* the large family of plurals with two-part bodies is tried on fewer counts
PONsShort == <<0, 1, 2, 5, 21, -1, -2, 1000000021>>
POBigPlural(d) == d.kind = "plural" /\ Len(d.cb) > 0 /\ Len(d.cb[1]) + Len(d.db) > 2
PONsFor(d) == IF d.kind = "invalid" THEN PONsShort ELSE IF d.kind # "plural" THEN <<3>> ELSE IF POBigPlural(d) THEN PONsShort ELSE PONs
=============================================================================
