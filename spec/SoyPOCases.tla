------------------------------ MODULE SoyPOCases ------------------------------
(***************************************************************************)
(* M2 for C11: TLC exports, for every message of the bounded families, the *)
(* structured body (the harness unparses it), what SoyPO expects the       *)
(* extractor to write (msgid, msgid_plural, var=, whether the message is   *)
(* PO-representable at all), the identity and reversing translations for   *)
(* each locale, and what each rendering must produce for each value of the *)
(* plural subject: without catalogue, with each translated catalogue.      *)
(***************************************************************************)
EXTENDS SoyPO, Json
CONSTANTS MaxParts, MaxInner, Shard, NShards, Locales
VARIABLE pcase

Family == {d \in POFamFlat(MaxParts) \cup POFamBrace(MaxParts) \cup POFamPlural(MaxInner) : PODomain(POFamBody(d))} \cup POFamInvalid \cup POFamExtra

Init == pcase \in {d \in Family : POShardOf(d, NShards) = Shard}
Next == UNCHANGED pcase

LocSeq == SetToSeq(Locales)

Outcome(x) == IF x.t = "out" THEN [t |-> "out", s |-> x.s] ELSE [t |-> x.t]

CaseRecord(d) ==
  LET body == POFamBody(d)
      m == [body |-> body, meaning |-> "", desc |-> ""]
      valid == POValidate(body)
      ns == PONsFor(d) IN
  IF ~valid
  THEN [id |-> POFamId(d), parts |-> body, valid |-> FALSE, feat |-> "plural-po-cannot-carry",
        exp |-> [i \in 1..Len(ns) |-> [n |-> ns[i], src |-> Outcome(PORenderSrc(body, POEnv(ns[i]))), loc |-> <<>>]]]
  ELSE LET e == POExtract(m) IN
       [id |-> POFamId(d), parts |-> body, valid |-> TRUE,
        names |-> PONames(body), phstr |-> PlaceholderString(body), key |-> MsgKeyString(body),
        feat |-> IF d.kind = "brace" THEN "literal-braces-in-text" ELSE MsgFeature(body),
        msgid |-> e.msgid, msgid_plural |-> e.msgid_plural, var |-> e.var,
        tr |-> [l \in 1..Len(LocSeq) |->
                  [loc |-> LocSeq[l], names |-> POCatalogueLocales(LocSeq[l]), forms |-> POPluralForms(LocSeq[l]),
                   idt |-> POTranslate("id", e, LocSeq[l]), rev |-> POTranslate("rev", e, LocSeq[l])]],
        exp |-> [i \in 1..Len(ns) |->
                  LET env == POEnv(ns[i])
                      \* nothing about a plural-free message depends on the locale
                      flatIdt == Outcome(PORoundTrip(m, "id", "en", env))
                      flatRev == Outcome(PORoundTrip(m, "rev", "en", env))
                      pl == MsgHasPlural(body) IN
                  [n |-> ns[i],
                   src |-> Outcome(PORenderSrc(body, env)),
                   loc |-> [l \in 1..Len(LocSeq) |->
                              [loc |-> LocSeq[l],
                               idt |-> IF pl THEN Outcome(PORoundTrip(m, "id", LocSeq[l], env)) ELSE flatIdt,
                               rev |-> IF pl THEN Outcome(PORoundTrip(m, "rev", LocSeq[l], env)) ELSE flatRev]]]]]

Export == PrintT(ToJson(CaseRecord(pcase)))
=============================================================================
