------------------------------ MODULE SoyPOCheck ------------------------------
(***************************************************************************)
(* M1 for C11: for every PO-representable message of the bounded families  *)
(* TLC checks that the pipeline                                            *)
(*     Render(Load(Translate(Extract(m))))                                 *)
(* gives what the property demands, stated without the pipeline:           *)
(*   - identity translation in the two-form locale = rendering without a   *)
(*     catalogue, for every value of the plural subject;                   *)
(*   - in one- and three-form locales the form the locale's rule selects;  *)
(*   - the reversing translation reverses exactly the rendered segments;   *)
(*   - a catalogue that lacks the message leaves the source rendering.     *)
(* With PODev # {} the named deviation must break the stated invariant.    *)
(***************************************************************************)
EXTENDS SoyPO
CONSTANTS MaxParts, MaxInner, Locales, Shard, NShards
VARIABLE pcase

PBody == POFamBody(pcase)
PMsg  == [body |-> PBody, meaning |-> "", desc |-> "d"]

Init == pcase \in {d \in POFamFlat(MaxParts) \cup POFamBrace(MaxParts) \cup POFamPlural(MaxInner) \cup POFamExtra :
                      POShardOf(d, NShards) = Shard /\ PODomain(POFamBody(d))}
Next == UNCHANGED pcase

\* values of the plural subject to try (a plural-free message reads $n too)
Ns == PONsFor(pcase)
Envs == [i \in 1..Len(Ns) |-> POEnv(Ns[i])]
\* (nothing about a plural-free message depends on the locale)
Locs == IF MsgHasPlural(PBody) THEN Locales ELSE {"en"}

RoundTripIdentity ==
  \A i \in 1..Len(Envs) : PORoundTrip(PMsg, "id", "en", Envs[i]) = PORenderSrc(PBody, Envs[i])

RoundTripForms ==
  \A i \in 1..Len(Envs), loc \in Locs :
     PORoundTrip(PMsg, "id", loc, Envs[i]) = POExpected(PBody, "id", loc, Envs[i])

RoundTripReverse ==
  \A i \in 1..Len(Envs), loc \in Locs :
     PORoundTrip(PMsg, "rev", loc, Envs[i]) = POExpected(PBody, "rev", loc, Envs[i])

\* the rule the catalogue declares selects the form, whatever the locale
HeaderWins ==
  \A i \in 1..Len(Envs), rule \in Locs :
     \A k \in 1..Len(POCatalogueLocales(rule)) :
        PORoundTripIn(PMsg, "id", rule, POCatalogueLocales(rule)[k], Envs[i]) = POExpected(PBody, "id", rule, Envs[i])

\* several different messages in one template body do not disturb each other
Partners == << [body |-> <<PoolC11[2]>>, meaning |-> "", desc |-> ""],
               [body |-> <<MText("t"), PoolC11[3], PoolC11[9]>>, meaning |-> "", desc |-> ""] >>

SeqIsConcat ==
  ~MsgHasPlural(PBody) =>
    \A i \in 1..Len(Envs), st \in {"id", "rev"} :
       /\ PORenderSeq(<<PMsg>> \o Partners, st, "en", Envs[i], "|") = POExpectedSeq(<<PMsg>> \o Partners, st, "en", Envs[i], "|")
       /\ PORenderSeq(Partners \o <<PMsg>>, st, "en", Envs[i], "|") = POExpectedSeq(Partners \o <<PMsg>>, st, "en", Envs[i], "|")

\* (checked once, on one state) a plural PO cannot carry is refused, or else
\* its identity translation renders what the source renders
ValidateOrRoundTrip ==
  (pcase.kind = "extra" /\ pcase.i = 1) =>
    \A j \in 1..Len(POBadCaseSets) :
       LET b == POBadBody(j) m == [body |-> b, meaning |-> "", desc |-> "d"] IN
       POValidateDev(b) =>
         \A k \in 1..Len(PONsShort) :
            PORoundTrip(m, "id", "en", POEnv(PONsShort[k])) = PORenderSrc(b, POEnv(PONsShort[k]))

\* (checked once) a locale selects the most specific catalogue on its chain
ResolveMostSpecific ==
  (pcase.kind = "extra" /\ pcase.i = 1) =>
    LET all == {POLoc("zh", "", ""), POLoc("zh", "Hant", ""), POLoc("zh", "Hant", "TW"), POLoc("zh", "", "TW")} IN
    \A avail \in SUBSET all, req \in all \cup {POLoc("zh", "Hans", "CN")} :
       LET r == POResolve(avail, req) ch == POChain(req) IN
       IF req \in avail THEN r = <<req>>
       ELSE IF \A i \in 1..Len(ch) : ch[i] \notin avail THEN r = <<>>
       ELSE r = <<ch[CHOOSE i \in 1..Len(ch) : ch[i] \in avail /\ \A k \in 1..(i - 1) : ch[k] \notin avail]>>

\* the two-form identity expectation is the source rendering (POExpected is
\* consistent with PORenderSrc)
ExpectedIsSource ==
  \A i \in 1..Len(Envs) : POExpected(PBody, "id", "en", Envs[i]) = PORenderSrc(PBody, Envs[i])

\* rendering with a catalogue: the message is looked up by id
RenderWith(cat, m, loc, env) ==
  IF MsgIdAbs(m) \in DOMAIN cat THEN PORender(m.body, cat[MsgIdAbs(m)], loc, env) ELSE PORenderSrc(m.body, env)

Other == [body |-> <<MText("some other message "), MPrint(MsgVar("y"))>>, meaning |-> "", desc |-> ""]
CatOf(m, loc) == LET e == POExtract(m) IN (MsgIdAbs(m) :> POLoad(e, POTranslate("rev", e, loc)))

AbsentFallsBack ==
  MsgIdAbs(Other) # MsgIdAbs(PMsg) =>
    \A i \in 1..Len(Envs) : RenderWith(CatOf(Other, "en"), PMsg, "en", Envs[i]) = PORenderSrc(PBody, Envs[i])

\* shape of the extracted entry
ExtractShape ==
  LET e == POExtract(PMsg) IN
  /\ (e.var # "") <=> MsgHasPlural(PBody)
  /\ (e.msgid_plural # "") <=> MsgHasPlural(PBody)
  /\ POUnparts(POParts(e.msgid)) = e.msgid
  /\ \A i \in 1..Len(POParts(e.msgid)) :
       POParts(e.msgid)[i].t = "ph" => \E k \in 1..Len(POPhNodes(PBody)) : POPhNodes(PBody)[k].name = POParts(e.msgid)[i].name
=============================================================================
