----------------------------- MODULE SoyRawText -----------------------------
(***************************************************************************)
(* C15 - template text is normalised by the line-joining rule and nothing  *)
(* else.                                                                   *)
(*                                                                         *)
(* (A) the line-joining rule, written declaratively from the property      *)
(*     statement (Norm / RuleA), the weak obligation that every reading    *)
(*     supports next to a comment (Acceptable), comment recognition        *)
(*     (Scan) and the acceptable outputs of a body with comments (AccBody).*)
(* (B) an implementation-shaped machine with the flags of rawtext() in     *)
(*     parse/rawtext.go: one action per character.  Every reachable state  *)
(*     holds one input string, so TLC checks (B) = (A) for EVERY string of *)
(*     length <= N over Alpha in every neighbour context (trimBefore is    *)
(*     chosen in Init, trimAfter is quantified in the invariant).          *)
(* (C) enumerators (M2): the same state space with printing invariants;    *)
(*     the Go harness replays every printed case through the real code.    *)
(*                                                                         *)
(* A character is a TLC string of length 1; a text is a SEQUENCE of        *)
(* characters (tuples are much cheaper in TLC than string slicing, and    *)
(* TLC's on-disk state queue damages non-ASCII characters held in state   *)
(* variables - measured - so inside the model a multi-byte rune is        *)
(* written as an ASCII stand-in letter that the harness maps to the real  *)
(* rune).  Rune 0 of the Go code is "".                                   *)
(***************************************************************************)
EXTENDS Integers, Sequences, FiniteSets, TLC

CONSTANTS
  Alpha,   \* sequence of the characters strings are built from
  N,       \* maximal length of a string
  Dev      \* set of named deviations (reference design: {})

DevNames == {"joiner_only_before", "joiner_only_after",
             "keep_trailing_ws_after_newline", "collapse_all_ws",
             "no_reset_seen_newline", "tab_not_space", "two_spaces",
             "rule_linebreak_verbatim", "rule_tight_eats_char",
             "literal_ends_at_fragment"}
ASSUME Dev \subseteq DevNames
ASSUME N \in Nat

\* Alphabets.  The harness writes a wrapper module (C15Run.tla: EXTENDS
\* SoyRawText, AlphaRun == <<...>>) and the cfg says Alpha <- AlphaRun.
\* Stand-ins: "e" = U+00E9 (2 bytes), "N" = U+00A0 NBSP, "M" = U+2003 EM
\* SPACE, "A" = U+1F600 (astral, 4 bytes).  These are the documented
\* alphabets of the text, unicode-space and comment families.
AlphaText    == <<"a", "<", ">", " ", "\t", "\r", "\n", "e">>
AlphaUni     == <<"a", "<", " ", "\n", "\r", "N", "M", "A">>
AlphaComment == <<"a", "/", "*", " ", "\n">>

SP  == " "
TAB == "\t"
CR  == "\r"
LF  == "\n"
WS    == {SP, TAB, CR, LF}     \* the ONLY characters the rule calls whitespace
LB    == {CR, LF}              \* line breaks
Tight == {"<", ">"}            \* tight joiners

Ch(s, i) == s[i]
IsWs(c)  == c \in WS
HasLB(s) == \E i \in 1..Len(s) : Ch(s, i) \in LB
AllWs(s) == \A i \in 1..Len(s) : Ch(s, i) \in WS

NotWs(c)   == c \notin WS
StripWs(s) == SelectSeq(s, NotWs)
\* a TLC string as a text (used by the trace module), and back (for messages)
ToText(str) == [i \in 1..Len(str) |-> SubSeq(str, i, i)]
RECURSIVE ToStr(_)
ToStr(s) == IF s = <<>> THEN "" ELSE s[1] \o ToStr(Tail(s))

-----------------------------------------------------------------------------
(* (A) The declarative rule.                                               *)

\* last index of the maximal run (whitespace / other) that starts at i
RECURSIVE RunEnd(_, _)
RunEnd(s, i) == IF i < Len(s) /\ (IsWs(Ch(s, i + 1)) <=> IsWs(Ch(s, i)))
                THEN RunEnd(s, i + 1) ELSE i

\* the maximal runs of s, in order: [a, b] index range, ws = whitespace run?
RECURSIVE RunsFrom(_, _)
RunsFrom(s, i) == IF i > Len(s) THEN <<>>
                  ELSE LET j == RunEnd(s, i)
                       IN <<[a |-> i, b |-> j, ws |-> IsWs(Ch(s, i))]>> \o RunsFrom(s, j + 1)
Runs(s) == RunsFrom(s, 1)

RunText(s, r) == SubSeq(s, r.a, r.b)

\* What one run contributes.  lc / rc: the left / right neighbour of the text
\* run is a comment (the repository's tests pin that whitespace touching a
\* comment is dropped; with lc = rc = FALSE this is exactly the property text).
RunOut(s, r, lc, rc) ==
  LET txt     == RunText(s, r)
      atStart == r.a = 1
      atEnd   == r.b = Len(s)
  IN IF ~r.ws THEN
        (IF "rule_tight_eats_char" \in Dev /\ txt \in {<<"<">>, <<">">>} THEN <<>> ELSE txt)
     ELSE IF HasLB(txt) THEN
        (IF atStart \/ atEnd THEN <<>>
         ELSE IF Ch(s, r.a - 1) \in Tight \/ Ch(s, r.b + 1) \in Tight THEN <<>>
         ELSE IF "rule_linebreak_verbatim" \in Dev THEN txt
         ELSE <<SP>>)
     ELSE (IF (atStart /\ lc) \/ (atEnd /\ rc) THEN <<>> ELSE txt)

RECURSIVE ConcatRuns(_, _, _, _, _)
ConcatRuns(s, rs, i, lc, rc) ==
  IF i > Len(rs) THEN <<>> ELSE RunOut(s, rs[i], lc, rc) \o ConcatRuns(s, rs, i + 1, lc, rc)

Norm(s, lc, rc) == ConcatRuns(s, Runs(s), 1, lc, rc)
RuleA(s) == Norm(s, FALSE, FALSE)

\* Next to a comment only what every reading supports is demanded: the
\* whitespace run touching the comment may be dropped (pinned), become one
\* space, or stay verbatim when it has no line break; everything else exact.
EdgeOpts(txt) == {<<>>, <<SP>>} \cup (IF HasLB(txt) THEN {} ELSE {txt})
RunOpts(s, r, lc, rc) ==
  IF r.ws /\ ((r.a = 1 /\ lc) \/ (r.b = Len(s) /\ rc))
  THEN EdgeOpts(RunText(s, r))
  ELSE {RunOut(s, r, FALSE, FALSE)}

Acceptable(s, lc, rc) ==
  LET rs == Runs(s) n == Len(rs) IN
  IF n = 0 THEN {<<>>}
  ELSE IF n = 1 THEN RunOpts(s, rs[1], lc, rc)
  ELSE LET mid == IF n > 2 THEN ConcatRuns(s, SubSeq(rs, 2, n - 1), 1, FALSE, FALSE) ELSE <<>>
       IN {h \o mid \o t : h \in RunOpts(s, rs[1], lc, rc), t \in RunOpts(s, rs[n], lc, rc)}

-----------------------------------------------------------------------------
(* Comment recognition in a template body: "/*" anywhere in text opens a    *)
(* block comment that ends at the next "*/"; "//" opens a line comment     *)
(* (through the first line break, or the end) only when the character      *)
(* before it is whitespace.  A body starts right after a tag ("}"), where  *)
(* "//" is text (parse/lexer_test "line comment4").                        *)
(* Result: [t |-> "ok", segs |-> <<[k |-> "text"|"com", s |-> ...]>>]       *)
(*         [t |-> "err"]     unclosed block comment                        *)
(*         [t |-> "unspec"]  "/**" (soydoc opener inside a body) or "//"   *)
(*                           directly after the end of a block comment     *)

RECURSIVE FindClose(_, _)   \* index of the "*" of the first "*/" at or after i, 0 if none
FindClose(src, i) == IF i + 1 > Len(src) THEN 0
                     ELSE IF Ch(src, i) = "*" /\ Ch(src, i + 1) = "/" THEN i
                     ELSE FindClose(src, i + 1)

RECURSIVE FindEol(_, _)     \* index of the first line break at or after i, else Len(src)
FindEol(src, i) == IF i >= Len(src) THEN Len(src)
                   ELSE IF Ch(src, i) \in LB THEN i ELSE FindEol(src, i + 1)

TextSeg(src, a, b) == IF a > b THEN <<>> ELSE <<[k |-> "text", s |-> SubSeq(src, a, b)]>>

RECURSIVE ScanFrom(_, _, _, _)   \* i: position, t: start of pending text, ac: a block comment ended at i-1
ScanFrom(src, i, t, ac) ==
  IF i > Len(src) THEN [t |-> "ok", segs |-> TextSeg(src, t, Len(src))]
  ELSE IF i < Len(src) /\ Ch(src, i) = "/" /\ Ch(src, i + 1) = "*" THEN
    IF i + 2 <= Len(src) /\ Ch(src, i + 2) = "*" THEN [t |-> "unspec"]
    ELSE LET e == FindClose(src, i + 2) IN
         IF e = 0 THEN [t |-> "err"]
         ELSE LET rest == ScanFrom(src, e + 2, e + 2, TRUE) IN
              IF rest.t # "ok" THEN rest
              ELSE [t |-> "ok", segs |-> TextSeg(src, t, i - 1)
                                         \o <<[k |-> "com", s |-> SubSeq(src, i, e + 1)]>> \o rest.segs]
  ELSE IF i < Len(src) /\ Ch(src, i) = "/" /\ Ch(src, i + 1) = "/" /\ ac THEN [t |-> "unspec"]
  ELSE IF i < Len(src) /\ Ch(src, i) = "/" /\ Ch(src, i + 1) = "/" /\ i > 1 /\ Ch(src, i - 1) \in WS THEN
    LET e == FindEol(src, i + 2)
        rest == ScanFrom(src, e + 1, e + 1, FALSE) IN
    IF rest.t # "ok" THEN rest
    ELSE [t |-> "ok", segs |-> TextSeg(src, t, i - 1)
                               \o <<[k |-> "com", s |-> SubSeq(src, i, e)]>> \o rest.segs]
  ELSE ScanFrom(src, i + 1, t, FALSE)

Scan(src) == ScanFrom(src, 1, 1, FALSE)

\* options for segment i of a body (segments: text, com, and in the trace
\* module also tags with a fixed output)
SegIsCom(segs, i) == i >= 1 /\ i <= Len(segs) /\ segs[i].k = "com"

RECURSIVE AccSegs(_, _)
AccSegs(segs, i) ==
  IF i > Len(segs) THEN {<<>>}
  ELSE IF segs[i].k = "com" THEN AccSegs(segs, i + 1)
  ELSE IF segs[i].k = "lit" THEN {segs[i].s \o y : y \in AccSegs(segs, i + 1)}   \* exempt from joining
  ELSE {x \o y : x \in Acceptable(segs[i].s, SegIsCom(segs, i - 1), SegIsCom(segs, i + 1)),
                 y \in AccSegs(segs, i + 1)}

\* acceptable outputs of a body with comments
AccBody(src) == LET r == Scan(src) IN
                IF r.t = "ok" THEN [t |-> "ok", acc |-> AccSegs(r.segs, 1), ncom |-> Cardinality({i \in 1..Len(r.segs) : r.segs[i].k = "com"})]
                ELSE [t |-> r.t, acc |-> {}, ncom |-> 0]

-----------------------------------------------------------------------------
(* Literal blocks.  {literal}BODY{/literal} and {{literal}}BODY{{/literal}} *)
(* are a token kind of their own: the body ends at the first occurrence of *)
(* the EXACT closing tag of the form the block was opened with, and is     *)
(* emitted verbatim - no joining, no comments, no commands inside; joining *)
(* applies to the text runs around the block as if it were any other tag.  *)
(* In a segment list a block is [k |-> "lit", s |-> body] (AccSegs).        *)
(* Deviation "literal_ends_at_fragment": the end is sought by the command  *)
(* name only ("/literal}") and the left delimiter is stepped over.         *)

LitOpen(dbl)  == ToText(IF dbl THEN "{{literal}}" ELSE "{literal}")
LitClose(dbl) == ToText(IF dbl THEN "{{/literal}}" ELSE "{/literal}")
LitFragment   == ToText("/literal}")

IsAt(s, pat, i) == i + Len(pat) - 1 <= Len(s) /\ SubSeq(s, i, i + Len(pat) - 1) = pat
RECURSIVE FindSub(_, _, _)   \* first index >= i at which pat occurs in s, 0 if none
FindSub(s, pat, i) == IF i + Len(pat) - 1 > Len(s) THEN 0
                      ELSE IF IsAt(s, pat, i) THEN i ELSE FindSub(s, pat, i + 1)

\* src is the source that follows the opening tag: index of the first
\* character of the closing tag, 0 = unclosed
LitBodyEnd(src, dbl) ==
  IF "literal_ends_at_fragment" \in Dev
  THEN LET j == FindSub(src, LitFragment, 1)
           d == IF dbl THEN 2 ELSE 1
       IN IF j <= d THEN 0 ELSE j - d
  ELSE FindSub(src, LitClose(dbl), 1)

LitLex(src, dbl) ==
  LET e == LitBodyEnd(src, dbl) IN
  IF e = 0 THEN [t |-> "err"]
  ELSE [t |-> "ok", body |-> SubSeq(src, 1, e - 1),
        rest |-> SubSeq(src, e + Len(LitClose(dbl)), Len(src))]

\* the literal family: a body is a sequence of ATOMS (strings: single
\* characters and hazards such as "{/literal}", "/literal}", " // c", "{sp}")
RECURSIVE Flat(_)
Flat(atoms) == IF atoms = <<>> THEN <<>> ELSE ToText(atoms[1]) \o Flat(Tail(atoms))

LitTail == ToText("\n b")

\* a body in a block of the given form: "ok" = emitted verbatim; "unspec" =
\* the body contains its own closing tag, the block ends early and the
\* remainder is template source (outside this model's domain)
LitCase(body, dbl) ==
  IF FindSub(body, LitClose(dbl), 1) # 0 THEN [t |-> "unspec", out |-> <<>>]
  ELSE LET r == LitLex(body \o LitClose(dbl) \o LitTail, dbl) IN
       IF r.t = "ok" THEN [t |-> "ok", out |-> r.body] ELSE [t |-> "err", out |-> <<>>]

\* text contexts of a literal block: <<text before, text after>>
LitContexts == << <<"", "">>, <<"a \n", "\n b">>, <<"a ", " b">>, <<"x\n\t", "\n\ty">>, <<"<a>\n", "\n</a>">> >>

-----------------------------------------------------------------------------
(* (B) The machine of rawtext(s, trimBefore, trimAfter).                   *)

VARIABLES inp,      \* characters consumed so far (the string this state stands for)
          tb,       \* trimBefore
          spaces, seenNL, lastChar, cbt,   \* the flags of rawtext()
          out       \* result so far

vars == <<inp, tb, spaces, seenNL, lastChar, cbt, out>>

AlphaSet == {Alpha[i] : i \in 1..Len(Alpha)}

TightJ(c) == c \in {"", "<", ">"}     \* isTightJoiner: 0, '<', '>'

IsSpaceB(c) == IF "tab_not_space" \in Dev THEN c = SP ELSE c \in {SP, TAB}   \* isSpace
IsEolB(c)   == c \in LB                                                      \* isEndOfLine

\* the run of pending whitespace, copied from the input as the Go code does
Pending == SubSeq(inp, Len(inp) - spaces + 1, Len(inp))

Init == /\ inp = <<>>
        /\ tb \in BOOLEAN
        /\ spaces = (IF tb THEN 1 ELSE 0)
        /\ seenNL = tb
        /\ lastChar = ""
        /\ cbt = ""
        /\ out = <<>>

Joiner(c) ==
  IF "joiner_only_before" \in Dev THEN ~TightJ(cbt)
  ELSE IF "joiner_only_after" \in Dev THEN ~TightJ(c)
  ELSE ~TightJ(cbt) /\ ~TightJ(c)

Step(c) ==
  /\ Len(inp) < N
  /\ inp' = Append(inp, c)
  /\ UNCHANGED tb
  /\ IF spaces > 0 /\ IsSpaceB(c) THEN
        spaces' = spaces + 1 /\ UNCHANGED <<seenNL, lastChar, cbt, out>>
     ELSE IF spaces > 0 /\ IsEolB(c) THEN
        spaces' = spaces + 1 /\ seenNL' = TRUE /\ UNCHANGED <<lastChar, cbt, out>>
     ELSE
        LET flushed ==
              IF spaces = 0 THEN out
              ELSE IF ~seenNL THEN
                   (IF "collapse_all_ws" \in Dev THEN Append(out, SP) ELSE out \o Pending)
              ELSE IF Joiner(c) THEN
                   (IF "two_spaces" \in Dev THEN out \o <<SP, SP>> ELSE Append(out, SP))
              ELSE out
            nl == IF "no_reset_seen_newline" \in Dev THEN (seenNL \/ IsEolB(c)) ELSE IsEolB(c)
        IN IF IsSpaceB(c) \/ IsEolB(c) THEN      \* begin to trim (only reachable with spaces = 0)
              /\ seenNL' = nl /\ spaces' = 1 /\ cbt' = lastChar /\ out' = flushed
              /\ UNCHANGED lastChar
           ELSE
              /\ seenNL' = nl /\ spaces' = 0 /\ out' = Append(flushed, c) /\ lastChar' = c
              /\ UNCHANGED cbt

Next == \E c \in AlphaSet : Step(c)

\* what rawtext returns at end of input
Finish(ta) ==
  IF "keep_trailing_ws_after_newline" \in Dev
  THEN (IF spaces > 0 /\ ~ta /\ ~tb THEN out \o Pending ELSE out)
  ELSE (IF ~seenNL /\ spaces > 0 /\ ~ta THEN out \o Pending ELSE out)

-----------------------------------------------------------------------------
(* M1 invariants.                                                          *)

\* (B) = (A) for the string of this state in every neighbour context
Equiv == \A ta \in BOOLEAN : Finish(ta) = Norm(inp, tb, ta)

\* the index arithmetic of the machine never leaves the input
SpacesInRange == spaces >= 0 /\ (~seenNL => spaces <= Len(inp))

\* properties of (A) alone
OutRunOk(o, s) ==
  LET ro == Runs(o) rs == Runs(s) IN
  \A i \in 1..Len(ro) :
    ro[i].ws => \/ RunText(o, ro[i]) = <<SP>>
                \/ /\ ~HasLB(RunText(o, ro[i]))
                   /\ \E j \in 1..Len(rs) : rs[j].ws /\ RunText(s, rs[j]) = RunText(o, ro[i])

\* (each string is the `inp' of two states, tb = TRUE / FALSE; the properties
\* of (A) alone are evaluated in the tb = FALSE state only)
Ctx4 == {<<FALSE, FALSE>>, <<FALSE, TRUE>>, <<TRUE, FALSE>>, <<TRUE, TRUE>>}

\* every non-whitespace character survives, in order
ANonWs  == tb \/ LET core == StripWs(inp) IN \A c \in Ctx4 : StripWs(Norm(inp, c[1], c[2])) = core
\* output whitespace is one space or a verbatim run without line break
AShape  == tb \/ \A c \in Ctx4 : OutRunOk(Norm(inp, c[1], c[2]), inp)
\* a text run that is only whitespace with a line break vanishes
AVanish == tb \/ ((AllWs(inp) /\ HasLB(inp)) => RuleA(inp) = <<>>)
\* normalising twice changes nothing more
AIdem   == tb \/ LET o == RuleA(inp) IN RuleA(o) = o
\* the weak obligation next to a comment: contains the exact rule and the pinned
\* reading, grows with the number of comment neighbours, and every member
\* keeps the non-whitespace characters and the shape of output whitespace
AWeak   == tb \/
  LET exact == RuleA(inp)
      core  == StripWs(inp)
      both  == Acceptable(inp, TRUE, TRUE) IN
  /\ Acceptable(inp, FALSE, FALSE) = {exact}
  /\ \A c \in Ctx4 : LET acc == Acceptable(inp, c[1], c[2]) IN
        /\ exact \in acc                     \* reading: the comment is just a boundary
        /\ Norm(inp, c[1], c[2]) \in acc      \* reading pinned by the tests
        /\ acc \subseteq both
  /\ \A o \in both : StripWs(o) = core /\ OutRunOk(o, inp)

-----------------------------------------------------------------------------
(* (C) Enumerators for M2: the machine started with tb = FALSE visits every *)
(* string once; the printing "invariants" are always TRUE.                 *)

EnumInit == Init /\ tb = FALSE

\* <<"T", s, RuleA(s), acceptable next to a comment on the left, right, both>>
PrintText == PrintT(<<"T", inp, RuleA(inp), Acceptable(inp, TRUE, FALSE),
                      Acceptable(inp, FALSE, TRUE), Acceptable(inp, TRUE, TRUE)>>)

\* comment family: the enumerated string is placed (1) directly after the
\* template tag and (2) on a line of its own; a final line break keeps a line
\* comment from swallowing the {/template} that follows the body.
\* <<"K", body, "ok"|"err"|"unspec", number of comments, acceptable outputs>>
PrintComment ==
  LET b1 == Append(inp, LF)
      b2 == <<LF>> \o inp \o <<LF>>
      a1 == AccBody(b1)
      a2 == AccBody(b2)
  IN /\ PrintT(<<"K", b1, a1.t, a1.ncom, a1.acc>>)
     /\ PrintT(<<"K", b2, a2.t, a2.ncom, a2.acc>>)

\* Scan only cuts: the segments, concatenated, are the source; text segments
\* are maximal (never adjacent, never empty); without "/" nothing is a comment
RECURSIVE CatSegs(_, _)
CatSegs(segs, i) == IF i > Len(segs) THEN <<>> ELSE segs[i].s \o CatSegs(segs, i + 1)
ScanPartition ==
  LET r == Scan(inp) IN
  r.t = "ok" =>
    /\ CatSegs(r.segs, 1) = inp
    /\ \A i \in 1..Len(r.segs) : r.segs[i].s # <<>>
    /\ \A i \in 1..(Len(r.segs) - 1) : ~(r.segs[i].k = "text" /\ r.segs[i + 1].k = "text")
    /\ ((\A i \in 1..Len(inp) : inp[i] # "/") => Len(r.segs) <= 1)
    /\ \A o \in AccSegs(r.segs, 1) :
         StripWs(o) = StripWs(CatSegs(SelectSeq(r.segs, LAMBDA g : g.k = "text"), 1))

\* literal family (inp is a sequence of atoms): a body that does not contain
\* the closing tag of its form is lexed back exactly, whatever else it holds
LitExact ==
  \A dbl \in BOOLEAN :
    LET body == Flat(inp) IN
    FindSub(body, LitClose(dbl), 1) = 0 =>
      LitLex(body \o LitClose(dbl) \o LitTail, dbl) = [t |-> "ok", body |-> body, rest |-> LitTail]

\* File-level line-end forms: the complete source with every LF written as
\* CR LF (Windows checkout) or as a bare CR.  Nothing may treat the forms
\* differently except the joining rule itself (to which CR, LF, CR LF are all
\* line breaks): the expectation for a converted source is the rule applied
\* to the converted text, and a literal body is emitted as converted.
EolNames == {"lf", "crlf", "cr"}
EolSeq(e) == IF e = "crlf" THEN <<CR, LF>> ELSE IF e = "cr" THEN <<CR>> ELSE <<LF>>
RECURSIVE ConvEol(_, _)
ConvEol(s, e) == IF s = <<>> THEN <<>>
                 ELSE (IF s[1] = LF THEN EolSeq(e) ELSE <<s[1]>>) \o ConvEol(Tail(s), e)

\* <<"L", line-end form, number of atoms, body, double-brace form?, "ok"|"unspec"|"err", output>>
\*   (forms crlf / cr only for bodies they change), and once per form
\* <<"LC", form, i, text before, text after, RuleA(before), RuleA(after)>>
PrintLiteral ==
  LET body == Flat(inp) IN
  /\ \A e \in EolNames : LET b == ConvEol(body, e) IN
        (e = "lf" \/ b # body) =>
          \A dbl \in BOOLEAN : LET c == LitCase(b, dbl) IN PrintT(<<"L", e, Len(inp), b, dbl, c.t, c.out>>)
  /\ (inp = <<>> => \A e \in EolNames : \A i \in 1..Len(LitContexts) :
        LET pre  == ConvEol(ToText(LitContexts[i][1]), e)
            post == ConvEol(ToText(LitContexts[i][2]), e) IN
        PrintT(<<"LC", e, i, pre, post, RuleA(pre), RuleA(post)>>))

\* to the rule the three line-end forms of a text are the same text
EolInvisible == tb \/ LET o == RuleA(inp) IN \A e \in {"crlf", "cr"} : RuleA(ConvEol(inp, e)) = o

=============================================================================
