-------------------------- MODULE SoyRawTextTrace --------------------------
(***************************************************************************)
(* Trace validation for C15 (mode M3): every line of c15_trace.ndjson is   *)
(* one template body rendered by the real soyhtml, recorded by the harness *)
(*                                                                         *)
(*   [k |-> "body", segs |-> <<seg, ...>>, err |-> BOOLEAN, out |-> str]    *)
(*                                                                         *)
(* where a segment is one of                                               *)
(*   [k |-> "text", s |-> str]   raw template text (one maximal text run)   *)
(*   [k |-> "tag",  o |-> str]   a command with a known output (print of a  *)
(*                               string, call of a constant template, an   *)
(*                               if/else boundary: "")                     *)
(*   [k |-> "sc",   n |-> name]  a special-character command               *)
(*   [k |-> "lit",  s |-> str,   {literal}s{/literal}, or with d = TRUE     *)
(*          d |-> BOOLEAN]       {{literal}}s{{/literal}}                  *)
(*   [k |-> "bcom", s |-> str]   block comment                             *)
(*   [k |-> "lcom", s |-> str]   line comment, s includes "//" and the     *)
(*                               line break that ends it (if any)          *)
(*                                                                         *)
(* A line is accepted iff out is one of the outputs SoyRawText allows for  *)
(* the body: text runs by rule (A) exactly, except that a whitespace run   *)
(* touching a comment only has to satisfy the weak obligation              *)
(* (SoyRawText!Acceptable); tags, literals and special characters emit     *)
(* exactly their characters; comments emit nothing.                        *)
(* The first line is a canary [k |-> "canary", s |-> str, units |-> n]:    *)
(* TLC prints the string back and the harness compares (UTF-8 integrity).  *)
(* One state per consumed line; rejected lines are printed, the run goes   *)
(* on (the harness needs all of them).                                     *)
(***************************************************************************)
EXTENDS Integers, Sequences, FiniteSets, TLC, Json

Trace == ndJsonDeserialize("c15_trace.ndjson")

VARIABLES l, nbad, nskip

\* the rule module, with its machine variables bound to constants (only the
\* constant-level operators of part (A) are used here)
R == INSTANCE SoyRawText WITH Alpha <- <<>>, N <- 0, Dev <- {},
       inp <- <<>>, tb <- FALSE, spaces <- 0, seenNL <- FALSE,
       lastChar <- "", cbt <- "", out <- <<>>

SpecialChar == [sp |-> " ", nil |-> "", n |-> "\n", r |-> "\r", t |-> "\t", lb |-> "{", rb |-> "}"]

IsCom(segs, i) == i >= 1 /\ i <= Len(segs) /\ segs[i].k \in {"bcom", "lcom"}

LastCh(str) == SubSeq(str, Len(str), Len(str))

\* Is the body inside the domain in which comment recognition is unambiguous?
\*  - no two adjacent text segments (a text run is maximal);
\*  - a line comment follows whitespace (a text run ending in whitespace or a
\*    line comment, which ends with its line break) and ends with a line break;
\*  - a block comment does not open with "/**" and is properly closed;
\*  - text contains neither "//" nor "/*" (the generator never writes them in
\*    plain text; examples that do are split into segments by the harness).
RECURSIVE NoOpener(_, _)
NoOpener(str, i) == IF i >= Len(str) THEN TRUE
                    ELSE IF SubSeq(str, i, i) = "/" /\ SubSeq(str, i + 1, i + 1) = "*" THEN FALSE
                    ELSE IF SubSeq(str, i, i) = "/" /\ SubSeq(str, i + 1, i + 1) = "/"
                            /\ i > 1 /\ SubSeq(str, i - 1, i - 1) \in R!WS THEN FALSE
                    ELSE NoOpener(str, i + 1)

InDomain(segs) ==
  \A i \in 1..Len(segs) :
    LET g == segs[i] IN
    CASE g.k = "text" -> /\ g.s # ""
                         /\ (i > 1 => segs[i - 1].k # "text")
                         /\ NoOpener(g.s, 1)
                         \* "/" at an edge could pair up with a neighbouring comment
                         /\ (SubSeq(g.s, 1, 1) = "/" => ~(i > 1 /\ segs[i - 1].k \in {"bcom", "lcom"}))
                         /\ (LastCh(g.s) = "/" => ~IsCom(segs, i + 1))
      [] g.k = "lcom" -> /\ Len(g.s) >= 3 /\ SubSeq(g.s, 1, 2) = "//"
                         /\ i > 1
                         /\ \/ segs[i - 1].k = "text" /\ LastCh(segs[i - 1].s) \in R!WS
                            \/ segs[i - 1].k = "lcom"
                         /\ \A j \in 3..(Len(g.s) - 1) : SubSeq(g.s, j, j) \notin R!LB
                         /\ LastCh(g.s) \in R!LB    \* else it would swallow what follows the body
      [] g.k = "bcom" -> /\ Len(g.s) >= 4 /\ SubSeq(g.s, 1, 2) = "/*" /\ SubSeq(g.s, 3, 3) # "*"
                         /\ SubSeq(g.s, Len(g.s) - 1, Len(g.s)) = "*/"
                         /\ R!FindClose(R!ToText(g.s), 3) = Len(g.s) - 1
      [] g.k = "sc"   -> g.n \in DOMAIN SpecialChar
      [] g.k = "lit"  -> R!FindSub(R!ToText(g.s), R!LitClose(g.d), 1) = 0   \* else the block ends early
      [] g.k = "tag"  -> TRUE
      [] OTHER -> FALSE

\* the outputs segment i may contribute
SegOpts(segs, i) ==
  LET g == segs[i] IN
  CASE g.k = "text" -> R!Acceptable(R!ToText(g.s), IsCom(segs, i - 1), IsCom(segs, i + 1))
    [] g.k = "tag"  -> {R!ToText(g.o)}
    [] g.k = "sc"   -> {R!ToText(SpecialChar[g.n])}
    [] g.k = "lit"  -> {R!ToText(g.s)}
    [] OTHER        -> {<<>>}

\* can o[p..] be produced by segs[i..]?
RECURSIVE Match(_, _, _, _)
Match(o, segs, i, p) ==
  IF i > Len(segs) THEN p = Len(o) + 1
  ELSE \E x \in SegOpts(segs, i) :
         /\ p + Len(x) - 1 <= Len(o)
         /\ SubSeq(o, p, p + Len(x) - 1) = x
         /\ Match(o, segs, i + 1, p + Len(x))

\* one acceptable output (the pinned reading) for messages
RECURSIVE Pinned(_, _)
Pinned(segs, i) ==
  IF i > Len(segs) THEN ""
  ELSE LET g == segs[i] IN
       (CASE g.k = "text" -> R!ToStr(R!Norm(R!ToText(g.s), IsCom(segs, i - 1), IsCom(segs, i + 1)))
          [] g.k = "tag"  -> g.o
          [] g.k = "sc"   -> SpecialChar[g.n]
          [] g.k = "lit"  -> g.s
          [] OTHER        -> "") \o Pinned(segs, i + 1)

Verdict(r) ==
  IF r.k = "canary" THEN (IF Len(r.s) = r.units THEN "ok" ELSE "bad")
  ELSE IF ~InDomain(r.segs) THEN "unspec"
  ELSE IF r.err THEN "bad"
  ELSE IF Match(R!ToText(r.out), r.segs, 1, 1) THEN "ok" ELSE "bad"

Init == l = 1 /\ nbad = 0 /\ nskip = 0

Step ==
  /\ l <= Len(Trace)
  /\ l' = l + 1
  /\ LET r == Trace[l] v == Verdict(r) IN
     /\ nskip' = nskip + (IF v = "unspec" THEN 1 ELSE 0)
     /\ (r.k = "canary" => PrintT(<<"CANARY", l, r.s>>))
     /\ IF v = "bad"
        THEN /\ nbad' = nbad + 1
             /\ PrintT(<<"BAD", l, IF r.k = "canary" THEN "" ELSE Pinned(r.segs, 1)>>)
        ELSE /\ nbad' = nbad
             /\ (v = "unspec" => PrintT(<<"UNSPEC", l>>))

Done == l = Len(Trace) + 1 /\ UNCHANGED <<l, nbad, nskip>>

Next == Step \/ Done

Report == l = Len(Trace) + 1 => PrintT(<<"DONE", l - 1, nbad, nskip>>)

TraceAccepted == TLCGet("stats").diameter - 1 = Len(Trace)
=============================================================================
