----------------------------- MODULE SoyRegistry -----------------------------
(***************************************************************************)
(* The template registry and the error-recovery path of a render (C06,     *)
(* C19).  A render that fails must still RETURN: building the error value  *)
(* (file name, line and column of the current node) must itself be total.  *)
(*                                                                         *)
(* Files are added in order; a template name is looked up in the list of   *)
(* templates (first match wins) while the per-name source/file tables are  *)
(* maps written at every Add.  A failure at node position pos of template  *)
(* t is recovered by computing LineOf(source(t), pos), which needs         *)
(* pos <= Len(source(t)).  Standalone evaluation (EvalExpr, ParseGlobals)  *)
(* has no template at all.                                                 *)
(*                                                                         *)
(* Dev (named deviations):                                                 *)
(*   "regsrc_last_wins"       the source table keeps the LAST file that    *)
(*                            defines a name while lookup returns the      *)
(*                            FIRST template (what the pinned code did)    *)
(*   "recover_reads_nil_tmpl" recovery dereferences the template even in   *)
(*                            standalone evaluation                        *)
(* Reference design: a duplicate template name is rejected by Add, and     *)
(* recovery without a template builds a position-less error.               *)
(***************************************************************************)
EXTENDS Integers, Sequences, FiniteSets, TLC

CONSTANTS Dev, Names, MaxLen, MaxFiles

VARIABLES files,     \* Seq of [len |-> source length, tmpls |-> set of names defined]
          templates, \* Seq of [name, file (index), maxpos] in insertion order
          srcOf,     \* name -> index of the file whose text the source table holds
          phase,     \* "build" | "ready" | "failed" | "returned" | "panicked" | "rejected"
          cur        \* the failing frame: [tmpl |-> name or "none", pos]

vars == <<files, templates, srcOf, phase, cur>>

Init == /\ files = <<>> /\ templates = <<>> /\ srcOf = [n \in {} |-> 0]
        /\ phase = "build" /\ cur = [tmpl |-> "none", pos |-> 0]

Defined == {templates[i].name : i \in 1..Len(templates)}

\* some fixed enumeration of a set of names as template records of file f
SetToSeqOf(ns, f) ==
  LET RECURSIVE Enum(_)
      Enum(S) == IF S = {} THEN <<>>
                 ELSE LET n == CHOOSE n \in S : TRUE IN <<[name |-> n, file |-> f]>> \o Enum(S \ {n})
  IN Enum(ns)

\* add a file of length len defining the template names ns
Add(len, ns) ==
  /\ phase = "build" /\ Len(files) < MaxFiles
  /\ IF ns \cap Defined # {} /\ "regsrc_last_wins" \notin Dev
     THEN /\ phase' = "rejected"                     \* duplicate name: compile error
          /\ UNCHANGED <<files, templates, srcOf, cur>>
     ELSE /\ files' = Append(files, [len |-> len, tmpls |-> ns])
          /\ templates' = templates \o SetToSeqOf(ns, Len(files) + 1)
          /\ srcOf' = [n \in (DOMAIN srcOf) \cup ns |-> IF n \in ns THEN Len(files) + 1 ELSE srcOf[n]]
          /\ UNCHANGED <<phase, cur>>

Compile == /\ phase = "build" /\ Len(files) > 0 /\ phase' = "ready"
           /\ UNCHANGED <<files, templates, srcOf, cur>>

\* first template of that name
Lookup(n) == templates[CHOOSE i \in 1..Len(templates) :
                         templates[i].name = n /\ \A j \in 1..(i - 1) : templates[j].name # n]

\* a render of template n fails at some node of the template that Lookup returns
RenderFails(n, pos) ==
  /\ phase = "ready" /\ n \in Defined
  /\ pos \in 0..files[Lookup(n).file].len
  /\ cur' = [tmpl |-> n, pos |-> pos] /\ phase' = "failed"
  /\ UNCHANGED <<files, templates, srcOf>>

\* standalone evaluation of an expression fails: there is no template
EvalFails ==
  /\ phase \in {"build", "ready"}
  /\ cur' = [tmpl |-> "none", pos |-> 0] /\ phase' = "failed"
  /\ UNCHANGED <<files, templates, srcOf>>

\* the recovery action: build the error value
Recover ==
  /\ phase = "failed"
  /\ UNCHANGED <<files, templates, srcOf, cur>>
  /\ IF cur.tmpl = "none"
     THEN phase' = (IF "recover_reads_nil_tmpl" \in Dev THEN "panicked" ELSE "returned")
     ELSE \* LineOf(source table entry, pos) slices source[:pos]
          phase' = (IF cur.pos <= files[srcOf[cur.tmpl]].len THEN "returned" ELSE "panicked")

Next == \/ \E len \in 1..MaxLen, ns \in (SUBSET Names) \ {{}} : Add(len, ns)
        \/ Compile
        \/ \E n \in Names, pos \in 0..MaxLen : RenderFails(n, pos)
        \/ EvalFails
        \/ Recover

Spec == Init /\ [][Next]_vars

\* C06: no panic escapes the recovery path
RecoveryTotal == phase # "panicked"

\* C19: the position reported lies inside the source the error names
PositionInside == phase = "failed" /\ cur.tmpl # "none" /\ "regsrc_last_wins" \notin Dev
                  => cur.pos <= files[srcOf[cur.tmpl]].len
=============================================================================
