------------------------------ MODULE SoySyntax ------------------------------
(***************************************************************************)
(* Concrete syntax of expressions: the operator table and an unparser      *)
(* driven by it.  Unp(e, mode) spells a tree                               *)
(*   "min"   with the parentheses the table makes necessary and no others  *)
(*   "full"  with parentheses around every operator application            *)
(*   "none"  with no parentheses at all (the named deviation               *)
(*           "print_without_parens": what a naive String() does)          *)
(* C17 needs printing to be injective (two trees print the same text only  *)
(* if they are the same tree): TLC checks that on the family Trees for     *)
(* "min" and "full", and finds the collision for "none".                   *)
(***************************************************************************)
EXTENDS SoyExpr, Json

CONSTANT Mode        \* which spelling the injectivity check uses

VARIABLES tr, done

Prec(k) == CASE k \in {"tern", "elvis"} -> 0 [] k = "or" -> 1 [] k = "and" -> 2
             [] k \in {"eq", "ne"} -> 3 [] k \in {"lt", "gt", "le", "ge"} -> 4
             [] k \in {"add", "sub"} -> 5 [] k \in {"mul", "div", "mod"} -> 6
             [] k \in {"neg", "not"} -> 7 [] OTHER -> 8

IsOp(k) == Prec(k) < 8

Sym(k) == CASE k = "mul" -> "*" [] k = "div" -> "/" [] k = "mod" -> "%" [] k = "add" -> "+"
            [] k = "sub" -> "-" [] k = "lt" -> "<" [] k = "gt" -> ">" [] k = "le" -> "<="
            [] k = "ge" -> ">=" [] k = "eq" -> "==" [] k = "ne" -> "!=" [] k = "and" -> "and"
            [] k = "or" -> "or" [] OTHER -> "?:"

\* does child c need parentheses as operand `side` (0 left/only, 1 right,
\* 2 else-branch) of an operator of kind pk ?
NeedsParens(ck, pk, side) ==
  IF ~IsOp(ck) THEN FALSE
  ELSE IF Prec(ck) = 0 THEN TRUE                 \* ternary / elvis operands always
  ELSE IF pk \in {"neg", "not"} THEN Prec(ck) < Prec(pk)
  ELSE IF side = 0 THEN Prec(ck) < Prec(pk)
  ELSE Prec(ck) <= Prec(pk)

RECURSIVE Unp(_, _), UnpSeq(_, _, _, _), UnpAcc(_, _, _)

Child(c, pk, side, mode) ==
  LET s == Unp(c, mode) IN
  IF mode = "none" THEN s
  ELSE IF mode = "full" THEN (IF IsOp(c.k) THEN "(" \o s \o ")" ELSE s)
  ELSE IF pk \in {"list", "fnarg", "index", "map"} THEN s
  ELSE IF NeedsParens(c.k, pk, side) THEN "(" \o s \o ")" ELSE s

UnpSeq(es, i, mode, sep) ==
  IF i > Len(es) THEN ""
  ELSE (IF i > 1 THEN sep ELSE "") \o Child(es[i], "list", 0, mode) \o UnpSeq(es, i + 1, mode, sep)

UnpAcc(acc, i, mode) ==
  IF i > Len(acc) THEN ""
  ELSE LET a == acc[i] q == IF a.ns THEN "?" ELSE "" IN
       (CASE a.k = "key" -> q \o "." \o a.key
          [] a.k = "idx" -> q \o "." \o ToString(a.idx)
          [] OTHER -> q \o "[" \o Child(a.e, "index", 0, mode) \o "]") \o UnpAcc(acc, i + 1, mode)

Unp(e, mode) ==
  CASE e.k = "null" -> "null"
    [] e.k = "bool" -> IF e.v THEN "true" ELSE "false"
    [] e.k = "int" -> ToString(e.v)
    [] e.k = "float" -> LET s == FloatText(e.num, e.sh) IN
                        IF e.num % Pow2(e.sh) = 0 THEN s \o ".0" ELSE s
    [] e.k = "str" -> "'" \o e.v \o "'"          \* family strings need no escapes
    [] e.k = "list" -> "[" \o UnpSeq(e.items, 1, mode, ", ") \o "]"
    [] e.k = "var" -> "$" \o e.name \o UnpAcc(e.acc, 1, mode)
    [] e.k = "global" -> e.name
    [] e.k = "fn" -> e.name \o "(" \o UnpSeq(e.args, 1, mode, ", ") \o ")"
    [] e.k = "neg" -> "-" \o Child(e.a, "neg", 0, mode)
    [] e.k = "not" -> "not " \o Child(e.a, "not", 0, mode)
    [] e.k = "tern" -> Child(e.c, "tern", 0, mode) \o " ? " \o Child(e.a, "tern", 1, mode)
                       \o " : " \o Child(e.b, "tern", 2, mode)
    [] OTHER -> Child(e.a, e.k, 0, mode) \o " " \o Sym(e.k) \o " " \o Child(e.b, e.k, 1, mode)

(***************************************************************************)
(* The family: every (parent operator, child operator, position).          *)
(***************************************************************************)
BinK == {"mul", "div", "mod", "add", "sub", "lt", "gt", "le", "ge", "eq", "ne", "and", "or", "elvis"}
UnK == {"neg", "not"}
V(n) == [k |-> "var", name |-> n, acc |-> <<>>]

Names == <<"a", "b", "c", "d", "e", "f">>
Arity(k) == IF k \in UnK THEN 1 ELSE IF k = "tern" THEN 3 ELSE 2

\* an operator application of kind k over operand trees xs
AppT(k, xs) == IF k \in UnK THEN [k |-> k, a |-> xs[1]]
               ELSE IF k = "tern" THEN [k |-> "tern", c |-> xs[1], a |-> xs[2], b |-> xs[3]]
               ELSE [k |-> k, a |-> xs[1], b |-> xs[2]]

\* over leaves named from position `from` of Names
App(k, ns) == AppT(k, [i \in 1..Arity(k) |-> V(ns[i])])
AppFrom(k, from) == AppT(k, [i \in 1..Arity(k) |-> V(Names[from + i - 1])])

AllK == BinK \cup UnK \cup {"tern"}

\* parent pk with an operator child ck as operand number pos (0-based); the
\* leaves are named a, b, c, ... from left to right, so that two different
\* groupings of the same flat text are both in the family
Nest(pk, ck, pos) ==
  AppT(pk, [i \in 1..Arity(pk) |->
              IF i - 1 < pos THEN V(Names[i])
              ELSE IF i - 1 = pos THEN AppFrom(ck, i)
              ELSE V(Names[i + Arity(ck) - 1])])

Positions(pk) == IF pk \in UnK THEN {0} ELSE IF pk = "tern" THEN {0, 1, 2} ELSE {0, 1}


NestDesc == {<<pk, ck, pos>> \in AllK \X AllK \X {0, 1, 2} : pos \in Positions(pk)}

\* other shapes: literals of each class, data references, calls, lists
Extra == {
  [k |-> "neg", a |-> [k |-> "int", v |-> 1]], [k |-> "neg", a |-> [k |-> "int", v |-> -1]],
  [k |-> "sub", a |-> [k |-> "int", v |-> 1], b |-> [k |-> "int", v |-> -1]],
  [k |-> "float", num |-> 2, sh |-> 0], [k |-> "float", num |-> 3, sh |-> 1], [k |-> "int", v |-> 2],
  [k |-> "add", a |-> [k |-> "float", num |-> 1, sh |-> 0], b |-> [k |-> "int", v |-> 1]],
  [k |-> "list", items |-> <<App("add", <<"a", "b">>), App("tern", <<"a", "b", "c">>)>>],
  [k |-> "fn", name |-> "max", args |-> <<App("sub", <<"a", "b">>), App("neg", <<"a">>)>>],
  [k |-> "var", name |-> "a", acc |-> <<[k |-> "expr", ns |-> FALSE, e |-> App("add", <<"b", "c">>)]>>],
  [k |-> "var", name |-> "a", acc |-> <<[k |-> "key", ns |-> TRUE, key |-> "k"], [k |-> "idx", ns |-> FALSE, idx |-> 0],
                                        [k |-> "expr", ns |-> TRUE, e |-> [k |-> "str", v |-> "k"]]>>],
  [k |-> "tern", c |-> V("a"), a |-> [k |-> "list", items |-> <<[k |-> "int", v |-> 1]>>], b |-> [k |-> "int", v |-> 2]],
  [k |-> "not", a |-> [k |-> "not", a |-> V("a")]], [k |-> "neg", a |-> [k |-> "neg", a |-> V("a")]]
}

Family == {Nest(d[1], d[2], d[3]) : d \in NestDesc} \cup Extra

Init == tr \in Family /\ done = FALSE
Next == done = FALSE /\ done' = TRUE /\ tr' = tr

Emit == done => PrintT(ToJson([e |-> tr, min |-> Unp(tr, "min"), full |-> Unp(tr, "full")]))

\* printing in the chosen mode is injective on the family
Texts == [u \in Family |-> Unp(u, Mode)]
Injective == \A u \in Family : Texts[u] = Texts[tr] => u = tr
=============================================================================
