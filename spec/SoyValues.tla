------------------------------ MODULE SoyValues ------------------------------
(***************************************************************************)
(* The Soy value model: undefined, null, bool, int, float, string, list,   *)
(* map; truthiness, equality, text.  Written from the Soy language         *)
(* definition and the behaviour pinned by robfig/soy's own tests           *)
(* (DESIGN.md Appendix A), not from data/value.go.                         *)
(*                                                                         *)
(* Every value is a tagged record so that values of different kinds can be *)
(* compared by TLC (tags first).  Floats are dyadic rationals num / 2^sh   *)
(* (TLC has no reals); results outside the dyadics or outside the 32-bit   *)
(* safe range are Unspec = "the model makes no claim".                     *)
(***************************************************************************)
EXTENDS Integers, Sequences, FiniteSets, TLC, SequencesExt

Undef  == [t |-> "undef"]
Null   == [t |-> "null"]
Err    == [t |-> "err"]      \* the language gives no value: the render must fail
Unspec == [t |-> "unspec"]   \* outside the model's domain: no claim
\* the language gives the expression no value, but the property does not name the
\* case among those that must be an error: an implementation may fail or treat
\* it as missing; what it may NOT do is produce some other text
NoVal  == [t |-> "noval"]
B(b)   == [t |-> "bool", v |-> b]
I(n)   == [t |-> "int", v |-> n]
S(s)   == [t |-> "str", v |-> s]
L(q)   == [t |-> "list", v |-> q]          \* q : Seq(Val)
M(f)   == [t |-> "map", v |-> f]           \* f : [set of strings -> Val]

\* integers beyond TLC's 32-bit range (up to 2^53 in absolute value) are carried
\* as decimal digit strings; the model only prints, negates, compares for
\* equality and concatenates them
Big(s) == [t |-> "bigint", v |-> s]

IsBad(v) == v.t = "err" \/ v.t = "unspec" \/ v.t = "noval"

Abs(n) == IF n < 0 THEN -n ELSE n
Max2(a, b) == IF a > b THEN a ELSE b
Min2(a, b) == IF a < b THEN a ELSE b

RECURSIVE Pow2(_)
Pow2(n) == IF n <= 0 THEN 1 ELSE 2 * Pow2(n - 1)

\* dyadic float num / 2^sh, normalised so that num is odd or sh = 0
RECURSIVE F(_, _)
F(num, sh) == IF sh > 0 /\ num % 2 = 0 THEN F(num \div 2, sh - 1)
              ELSE [t |-> "float", num |-> num, sh |-> sh]

IsNum(v) == v.t = "int" \/ v.t = "float"
Num(v)   == IF v.t = "int" THEN v.v ELSE v.num     \* numerator
Sh(v)    == IF v.t = "int" THEN 0 ELSE v.sh

\* 32-bit safety guards for TLC arithmetic
AddOK(v) == Sh(v) <= 10 /\ Abs(Num(v)) < 524288          \* 2^19
MulOK(v) == Sh(v) <= 10 /\ Abs(Num(v)) < 32768           \* 2^15
IntAddOK(n) == Abs(n) < 1073741823
IntMulOK(n) == Abs(n) < 32768

\* numerators of x and y over the common denominator 2^Max(sh)
AlignA(x, y) == Num(x) * Pow2(Max2(Sh(x), Sh(y)) - Sh(x))
AlignB(x, y) == Num(y) * Pow2(Max2(Sh(x), Sh(y)) - Sh(y))

\* numeric comparison: -1, 0, 1 ; requires AddOK on both
NumCmp(x, y) == LET a == AlignA(x, y) b == AlignB(x, y) IN
                IF a < b THEN -1 ELSE IF a > b THEN 1 ELSE 0

(***************************************************************************)
(* Truthiness (doc table; empty list/map truthy pinned by the tests).      *)
(***************************************************************************)
Truthy(v) == CASE v.t = "undef" -> FALSE
               [] v.t = "null"  -> FALSE
               [] v.t = "bool"  -> v.v
               [] v.t = "int"   -> v.v # 0
               [] v.t = "float" -> v.num # 0
               [] v.t = "bigint" -> TRUE
               [] v.t = "str"   -> v.v # ""
               [] OTHER -> TRUE

(***************************************************************************)
(* Strict equality.  Result: "t" / "f" / "u" (unspecified: collections).    *)
(***************************************************************************)
EqualsV(a, b) ==
  IF a.t \in {"list", "map"} /\ b.t = a.t THEN "u"   \* identity semantics: out of domain
  ELSE IF a.t = "bigint" \/ b.t = "bigint" THEN
         (IF a.t = b.t THEN (IF a.v = b.v THEN "t" ELSE "f")
          ELSE IF (a.t = "int" \/ b.t = "int") THEN "f"      \* a 32-bit int never equals a big one
          ELSE IF IsNum(a) \/ IsNum(b) THEN "u" ELSE "f")
  ELSE IF IsNum(a) /\ IsNum(b) THEN
         IF AddOK(a) /\ AddOK(b) THEN (IF NumCmp(a, b) = 0 THEN "t" ELSE "f") ELSE "u"
  ELSE IF a.t # b.t THEN "f"
  ELSE CASE a.t = "undef" -> "t"
         [] a.t = "null" -> "t"
         [] a.t = "bool" -> IF a.v = b.v THEN "t" ELSE "f"
         [] a.t = "str" -> IF a.v = b.v THEN "t" ELSE "f"
         [] OTHER -> "u"

(***************************************************************************)
(* Text of a value.                                                        *)
(***************************************************************************)
RECURSIVE FracDigits(_, _)
FracDigits(rem, sh) ==
  IF rem = 0 THEN ""
  ELSE LET p == Pow2(sh) IN ToString((rem * 10) \div p) \o FracDigits((rem * 10) % p, sh)

\* exact decimal expansion; integral floats print without a point (JS style)
FloatText(num, sh) ==
  LET a == Abs(num) p == Pow2(sh) IN
  (IF num < 0 THEN "-" ELSE "") \o ToString(a \div p) \o
  (IF a % p = 0 THEN "" ELSE "." \o FracDigits(a % p, sh))

\* character order for sorting map keys (printable ASCII)
Alphabet == " !\"#$%&'()*+,-./0123456789:;<=>?@ABCDEFGHIJKLMNOPQRSTUVWXYZ[\\]^_`abcdefghijklmnopqrstuvwxyz{|}~"
AlphaSet == {SubSeq(Alphabet, i, i) : i \in 1..Len(Alphabet)}
Code == [c \in AlphaSet |-> CHOOSE i \in 1..Len(Alphabet) : SubSeq(Alphabet, i, i) = c]
CharCode(c) == IF c \in AlphaSet THEN Code[c] ELSE 0

RECURSIVE StrLessFrom(_, _, _)
StrLessFrom(a, b, i) ==
  IF i > Len(b) THEN FALSE
  ELSE IF i > Len(a) THEN TRUE
  ELSE LET ca == CharCode(SubSeq(a, i, i)) cb == CharCode(SubSeq(b, i, i)) IN
       IF ca < cb THEN TRUE ELSE IF ca > cb THEN FALSE ELSE StrLessFrom(a, b, i + 1)
StrLess(a, b) == StrLessFrom(a, b, 1)

RECURSIVE AllAscii(_, _)
AllAscii(s, i) == i > Len(s) \/ (SubSeq(s, i, i) \in AlphaSet /\ AllAscii(s, i + 1))

IsPrefixStr(a, b) == Len(a) < Len(b) /\ SubSeq(b, 1, Len(a)) = a

SortedKeys(f) == SetToSortSeq(DOMAIN f, StrLess)

\* keys for which the printing order is defined by every reading
KeysOK(f) == /\ \A k \in DOMAIN f : k # "" /\ AllAscii(k, 1)
             /\ \A k1, k2 \in DOMAIN f : ~IsPrefixStr(k1, k2)

\* a value whose text the language defines (no undefined inside, orderable keys)
RECURSIVE Printable(_)
Printable(v) ==
  CASE v.t = "undef" -> FALSE
    [] v.t = "list" -> \A i \in 1..Len(v.v) : Printable(v.v[i])
    [] v.t = "map" -> KeysOK(v.v) /\ \A k \in DOMAIN v.v : Printable(v.v[k])
    \* below 1e-6 JavaScript switches to exponent notation: outside the model
    [] v.t = "float" -> v.sh <= 20 /\ (v.num = 0 \/ Abs(v.num) >= 2147 \/ Abs(v.num) * 1000000 >= Pow2(v.sh))
    [] OTHER -> TRUE

RECURSIVE ToText(_), JoinList(_, _), JoinMap(_, _, _)
ToText(v) ==
  CASE v.t = "null" -> "null"
    [] v.t = "bool" -> IF v.v THEN "true" ELSE "false"
    [] v.t = "int" -> ToString(v.v)
    [] v.t = "bigint" -> v.v
    [] v.t = "float" -> FloatText(v.num, v.sh)
    [] v.t = "str" -> v.v
    [] v.t = "list" -> "[" \o JoinList(v.v, 1) \o "]"
    [] v.t = "map" -> "{" \o JoinMap(v.v, SortedKeys(v.v), 1) \o "}"
    [] OTHER -> "<?>"
JoinList(q, i) ==
  IF i > Len(q) THEN ""
  ELSE (IF i > 1 THEN ", " ELSE "") \o ToText(q[i]) \o JoinList(q, i + 1)
JoinMap(f, ks, i) ==
  IF i > Len(ks) THEN ""
  ELSE (IF i > 1 THEN ", " ELSE "") \o ks[i] \o ": " \o ToText(f[ks[i]]) \o JoinMap(f, ks, i + 1)

=============================================================================
