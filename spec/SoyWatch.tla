------------------------------ MODULE SoyWatch ------------------------------
(***************************************************************************)
(* XWATCH - Bundle.WatchFiles / the recompiler of robfig/soy (bundle.go).  *)
(*                                                                         *)
(* A bundle built with WatchFiles(true) holds one fsnotify watcher; every  *)
(* AddTemplateFile adds a watch on that FILE (not on its directory).       *)
(* Compile starts `go b.recompiler(&registry)`.  The recompiler, for every *)
(* event it receives:                                                      *)
(*   1. if the event is exactly Remove or exactly Rename: sleeps 10 ms and *)
(*      calls watcher.Add(name) again; an error is logged (and nothing     *)
(*      else is done about it);                                            *)
(*   2. reads EVERY file of the bundle from disk again, one after the      *)
(*      other (AddTemplateFile on a fresh bundle);                         *)
(*   3. compiles (parse, the registered parse passes, data-ref check,      *)
(*      globals); on any error: logs the error, keeps the registry;        *)
(*   4. on success: calls recompilationCallback(new), then `*reg = *new`,  *)
(*      then logs "update successful".                                     *)
(* One action below per step.  The environment is a single writer that     *)
(* changes one file at a time with one of the methods a tool really uses:  *)
(*   "write"    open(O_TRUNC) then write(2)      -> intermediate: empty    *)
(*   "atomic"   write a temp file, rename(2) over the target               *)
(*   "recreate" unlink(2), later rename a temp file into place             *)
(*              -> intermediate: absent                                    *)
(*   "moveaway" rename the target to a backup name, rename a temp file     *)
(*              into place (vim's backup-then-write)  -> intermediate:     *)
(*              absent, and the event is Rename, not Remove                *)
(* and the kernel/fsnotify part between them:                              *)
(*   - a watch is on the INODE; unlinking or replacing the inode ends it   *)
(*     (wwatch[f] = FALSE until the recompiler adds it again);             *)
(*   - in-place modification of a watched inode queues a Write event,      *)
(*     unlink/rename-over queues Chmod (link count) and Remove, moving     *)
(*     away queues Rename;  an event identical to the one at the tail of   *)
(*     the queue MAY be coalesced with it (inotify does so while the tail  *)
(*     has not been read yet);                                             *)
(*   - fsnotify 1.4.9 drops an event that is not Remove/Rename when the    *)
(*     file does not exist at the time it looks (ignoreLinux).             *)
(*                                                                         *)
(* File contents are abstracted to  v1 | v2 (valid, the template prints    *)
(* its version) | bad (does not parse) | empty (does not compile either:   *)
(* "namespace required", measured) | absent.                               *)
(*                                                                         *)
(* PROPERTIES (reference design, Dev = {})                                 *)
(*  (a) RegValid, PerFileFromDisk: the registry in use is the compile      *)
(*      result of contents that were all valid and each on disk while the  *)
(*      recompile that installed it ran.  SnapshotExisted (the whole       *)
(*      snapshot was the disk at one moment) holds ONLY under the          *)
(*      abstraction ReadAtomic = TRUE; the real code reads the files one   *)
(*      after the other and TLC finds the torn read with ReadAtomic =      *)
(*      FALSE (write file 1 after it was read, write file 2 before it is   *)
(*      read).  That is a property of the real code, reported in the notes *)
(*      as an accepted limitation: both writes queue their own events, so  *)
(*      the mixed registry is replaced by a later recompile.               *)
(*  (b) FailKeepsRegistry, OnlySwapChangesRegistry.                        *)
(*  (c) CallbackBeforeVisible, CallbackOncePerSuccess, NoCallbackOnFail.   *)
(*  (d) QuiescentConsistent (safety form): whenever nothing is pending     *)
(*      (queue empty, recompiler idle, writer idle), the disk is valid and *)
(*      no watch was lost, the registry is compile(disk).                  *)
(*      LiveUnlessLost / LiveStrict (temporal, weak fairness on the        *)
(*      recompiler and on finishing a started write, a finite budget of    *)
(*      writes so that the disk does stop changing):                       *)
(*        LiveUnlessLost == <>[]((DiskValid /\ ~wlost) => wreg = wdisk)    *)
(*        LiveStrict     == <>[](DiskValid => wreg = wdisk)                *)
(*      LiveStrict holds for Methods \subseteq {"write","atomic"} and is   *)
(*      VIOLATED as soon as "recreate" or "moveaway" is allowed.           *)
(*                                                                         *)
(*  (e) PassesApplied, GlobalsBound, MessagesProcessed, SourceMapsFresh,   *)
(*      GeneratorCurrent: the registry in use has been through EVERY       *)
(*      post-parse step of Compile (registered passes, CheckDataRefs - an  *)
(*      even file's "bad" version fails only there -, SetGlobals,          *)
(*      ProcessMessages), its private source maps describe the templates   *)
(*      it holds, and a soyjs.Generator made from it shows them.           *)
(*      PassesApplied, GlobalsBound: the registry in use has been through  *)
(*      every parse pass registered with AddParsePass, and its templates   *)
(*      are bound to the bundle's globals (the recompiler's fresh bundle   *)
(*      must carry both over; every template of the harness prints a       *)
(*      global, so a fresh bundle without globals does not compile at all  *)
(*      and "globals_dropped_on_recompile" shows as a stale registry).     *)
(*                                                                         *)
(* WHAT BREAKS (d) IN THE REAL WORLD - stated honestly:                    *)
(*  1. the file is still absent when the recompiler re-adds the watch      *)
(*     (10 ms after the Remove/Rename event): watcher.Add fails, the error *)
(*     is logged, nobody retries; no later change of that file is ever     *)
(*     seen (wlost).  Modelled: ReAddFail.  Accepted limitation.           *)
(*  2. a write that lands while the watch is gone (between the rename and  *)
(*     the re-add) queues no event.  This does NOT lose the update in the  *)
(*     reference design, because the re-add is followed by a full re-read; *)
(*     it does with deviation "readd_after_read".                          *)
(*  3. a write that lands between the read and the swap is not in the      *)
(*     registry that is swapped in; its own event repairs that later - if  *)
(*     the file is watched at that time.                                   *)
(*  4. NOT in this model: the inotify queue overflowing (IN_Q_OVERFLOW,    *)
(*     16384 events), and what the pinned fsnotify 1.4.9 really does after *)
(*     a Rename event: Add() on a name it still has in its tables does not *)
(*     register the new watch descriptor, events of the new file arrive    *)
(*     with an empty name and are dropped by ignoreLinux.  The model       *)
(*     follows the comment in bundle.go ("fsnotify has removed the watch.  *)
(*     Add it back"), the harness reports the real behaviour (notes).      *)
(*  5. the swap itself is a struct copy racing with renders ("not          *)
(*     goroutine-safe ... development aid"): out of scope, the harness     *)
(*     renders only at quiescence.                                         *)
(*                                                                         *)
(* Dev: "swap_on_error" (a failed compile overwrites the registry with     *)
(* what did compile), "callback_after_swap", "partial_reload" (only the    *)
(* file named by the event is re-read, the others are taken from the       *)
(* content the bundle was built with), "watch_not_readded",                *)
(* "readd_after_read" (the watch is added back after the files were read), *)
(* "passes_skipped_on_recompile" (what the code did before 1156157: the    *)
(* fresh bundle has no parse passes), "globals_dropped_on_recompile" (the  *)
(* fresh bundle is built without AddGlobalsMap(b.globals)),                *)
(* "messages_not_processed_on_recompile" (the recompiler calls an internal *)
(* compile without ProcessMessages), "datarefs_not_checked_on_recompile",  *)
(* "source_maps_stale_after_swap" (only the exported fields are swapped    *)
(* in), "generator_caches_per_file" (soyjs.Generator never invalidates).   *)
(*                                                                         *)
(* M2: with HistOn the writer starts a write only at quiescence and the    *)
(* registry is observed at the next quiescence (that is what the harness   *)
(* does); every reachable history is printed as JSON: the schedules and,   *)
(* per schedule, the set of observation sequences the model allows.        *)
(***************************************************************************)
EXTENDS Integers, Sequences, FiniteSets, TLC, Json

CONSTANTS NF,          \* number of template files; they are read in the order 1..NF
          Dev,         \* set of named deviations
          Methods,     \* write methods the environment may use
          MaxQ,        \* bound on the number of pending events
          MaxWrites,   \* budget of writes (so that the disk stops changing)
          Passes,      \* the parse passes registered with AddParsePass
          ReadAtomic,  \* TRUE: all files are read in one step (abstraction)
          HistOn       \* TRUE: schedule enumeration mode (M2)

VARIABLES wdisk,   \* file -> content
          wwatch,  \* file -> the inode now at that path has a watch
          wq,      \* pending events, oldest first
          wwr,     \* the writer: idle, or the write in progress and its next step
          wleft,   \* writes left
          rpc,     \* recompiler: idle | readd | read | compile | fail | cb | swap | logok
          rev,     \* the event being handled
          rnext,   \* next file to read
          rsnap,   \* what this recompile has read so far
          rsnapx,  \* its compile result: parse passes applied, globals bound
          wreg,    \* the registry in use: file -> version it was compiled from
          wregx,   \* the registry in use: parse passes it went through, globals bound
          wcb,     \* callbacks of this recompile: how many, last argument
          wlost,   \* a re-add found the file absent (limitation 1 happened)
          wsnaps,  \* ghost: every disk state that existed since this recompile began
          whist    \* M2 history
vars == <<wdisk, wwatch, wq, wwr, wleft, rpc, rev, rnext, rsnap, rsnapx, wreg, wregx, wcb, wlost, wsnaps, whist>>

Files == 1..NF
Valid == {"v1", "v2"}
Writable == {"v1", "v2", "bad"}
AllMethods == {"write", "atomic", "recreate", "moveaway"}
NoSnap == [f \in Files |-> "none"]
InitDisk == [f \in Files |-> "v1"]
IdleW == [st |-> "idle", f |-> 0, v |-> "none", m |-> "none", k |-> 0]
NoEv == [f |-> 0, op |-> "none"]
\* every template of the harness prints one global; the bundle defines it as Glob
Glob == "g"
\* per registry: p = parse passes it went through, g = global value bound
\* (SetGlobals), m = ProcessMessages ran (message ids and placeholder names
\* are set), src = the snapshot its private source maps (the text
\* Registry.LineNumber slices) describe; CheckDataRefs leaves no trace in a
\* registry: it shows in what Compile rejects (BadRef)
NoX == [p |-> {}, g |-> "none", m |-> FALSE, src |-> NoSnap]
FullX == [p |-> Passes, g |-> Glob, m |-> TRUE, src |-> InitDisk]
\* the "bad" version of an even file parses but uses an undeclared variable
\* (rejected by CheckDataRefs only); that of an odd file does not parse
BadRef(f) == f % 2 = 0
NoCb == [n |-> 0, arg |-> NoSnap, argx |-> NoX]
Ev(f, op) == [f |-> f, op |-> op]
NSteps(m) == IF m = "atomic" THEN 1 ELSE 2

AllValid(s) == \A f \in Files : s[f] \in Valid
DiskValid == AllValid(wdisk)
Quiet == rpc = "idle" /\ wq = <<>> /\ wwr.st = "idle"

Init ==
  /\ wdisk = InitDisk /\ wwatch = [f \in Files |-> TRUE] /\ wq = <<>>
  /\ wwr = IdleW /\ wleft = MaxWrites
  /\ rpc = "idle" /\ rev = NoEv /\ rnext = 0 /\ rsnap = NoSnap /\ rsnapx = NoX
  /\ wreg = InitDisk /\ wregx = FullX /\ wcb = NoCb /\ wlost = FALSE /\ wsnaps = {} /\ whist = <<>>

-----------------------------------------------------------------------------
(* the file system and the event queue *)

\* possible queues after e is generated: appended, or coalesced with an
\* identical tail
Enq(q, e) == {Append(q, e)} \cup (IF q # <<>> /\ q[Len(q)] = e THEN {q} ELSE {})
Enq2(q, e1, e2) == UNION {Enq(q1, e2) : q1 \in Enq(q, e1)}

SetDisk(f, c) ==
  /\ wdisk' = [wdisk EXCEPT ![f] = c]
  /\ wsnaps' = IF rpc = "idle" THEN wsnaps ELSE wsnaps \cup {[wdisk EXCEPT ![f] = c]}

\* the inode at f is modified in place (created, unwatched, if there is none)
InPlace(f, c) ==
  /\ SetDisk(f, c)
  /\ wq' \in (IF wwatch[f] THEN Enq(wq, Ev(f, "write")) ELSE {wq})
  /\ UNCHANGED wwatch

\* the inode at f loses its last link (unlink, or a rename over it); the path
\* now holds c (a different inode, or nothing): never watched
Unlink(f, c) ==
  /\ SetDisk(f, c)
  /\ wq' \in (IF wwatch[f] THEN Enq2(wq, Ev(f, "chmod"), Ev(f, "remove")) ELSE {wq})
  /\ wwatch' = [wwatch EXCEPT ![f] = FALSE]

\* the inode at f is renamed to a backup name
MoveAway(f) ==
  /\ SetDisk(f, "absent")
  /\ wq' \in (IF wwatch[f] THEN Enq(wq, Ev(f, "rename")) ELSE {wq})
  /\ wwatch' = [wwatch EXCEPT ![f] = FALSE]

\* fsnotify's ignoreLinux: Write/Chmod for a path that does not exist now
DropEvent ==
  /\ wq # <<>> /\ Head(wq).op \in {"write", "chmod"} /\ wdisk[Head(wq).f] = "absent"
  /\ wq' = Tail(wq)
  /\ UNCHANGED <<wdisk, wwatch, wwr, wleft, rpc, rev, rnext, rsnap, rsnapx, wreg, wregx, wcb, wlost, wsnaps, whist>>

-----------------------------------------------------------------------------
(* the writer (environment) *)

LastObserved == IF Len(whist) = 0 THEN TRUE ELSE whist[Len(whist)].obs # NoSnap

WIntent(f, v, m) ==
  /\ wwr.st = "idle" /\ wleft > 0 /\ m \in Methods
  /\ HistOn => (Quiet /\ LastObserved)
  /\ wwr' = [st |-> "busy", f |-> f, v |-> v, m |-> m, k |-> 1]
  /\ wleft' = wleft - 1
  /\ whist' = IF HistOn THEN Append(whist, [f |-> f, v |-> v, m |-> m, obs |-> NoSnap, ox |-> NoX]) ELSE whist
  /\ UNCHANGED <<wdisk, wwatch, wq, rpc, rev, rnext, rsnap, rsnapx, wreg, wregx, wcb, wlost, wsnaps>>

WStep ==
  /\ wwr.st = "busy" /\ wwr.k <= NSteps(wwr.m) /\ Len(wq) + 2 <= MaxQ
  /\ LET f == wwr.f  v == wwr.v  m == wwr.m  k == wwr.k IN
       CASE m = "write"    /\ k = 1 -> InPlace(f, "empty")
         [] m = "write"    /\ k = 2 -> InPlace(f, v)
         [] m = "atomic"            -> Unlink(f, v)
         [] m = "recreate" /\ k = 1 -> Unlink(f, "absent")
         [] m = "recreate" /\ k = 2 -> Unlink(f, v)
         [] m = "moveaway" /\ k = 1 -> MoveAway(f)
         [] m = "moveaway" /\ k = 2 -> Unlink(f, v)
  /\ wwr' = [wwr EXCEPT !.k = @ + 1]
  /\ UNCHANGED <<wleft, rpc, rev, rnext, rsnap, rsnapx, wreg, wregx, wcb, wlost, whist>>

WDone ==
  /\ wwr.st = "busy" /\ wwr.k > NSteps(wwr.m)
  /\ wwr' = IdleW
  /\ UNCHANGED <<wdisk, wwatch, wq, wleft, rpc, rev, rnext, rsnap, rsnapx, wreg, wregx, wcb, wlost, wsnaps, whist>>

\* M2: the harness looks at the registry (renders) at quiescence
Observe ==
  /\ HistOn /\ Quiet /\ ~LastObserved
  /\ whist' = [whist EXCEPT ![Len(whist)].obs = wreg, ![Len(whist)].ox = wregx]
  /\ UNCHANGED <<wdisk, wwatch, wq, wwr, wleft, rpc, rev, rnext, rsnap, rsnapx, wreg, wregx, wcb, wlost, wsnaps>>

-----------------------------------------------------------------------------
(* the recompiler *)

\* case ev := <-b.watcher.Events
Deliver ==
  /\ rpc = "idle" /\ wq # <<>>
  /\ rev' = Head(wq) /\ wq' = Tail(wq)
  /\ rpc' = IF Head(wq).op \in {"remove", "rename"} /\ "readd_after_read" \notin Dev THEN "readd" ELSE "read"
  /\ rnext' = 1 /\ rsnap' = NoSnap /\ rsnapx' = NoX /\ wcb' = NoCb /\ wsnaps' = {wdisk}
  /\ UNCHANGED <<wdisk, wwatch, wwr, wleft, wreg, wregx, wlost, whist>>

AfterReadd == IF "readd_after_read" \in Dev THEN "compile" ELSE "read"

\* time.Sleep(10ms); b.watcher.Add(ev.Name) == nil
ReAddOK ==
  /\ rpc = "readd"
  /\ "watch_not_readded" \in Dev \/ wdisk[rev.f] # "absent"
  /\ wwatch' = IF "watch_not_readded" \in Dev THEN wwatch ELSE [wwatch EXCEPT ![rev.f] = TRUE]
  /\ rpc' = AfterReadd
  /\ UNCHANGED <<wdisk, wq, wwr, wleft, rev, rnext, rsnap, rsnapx, wreg, wregx, wcb, wlost, wsnaps, whist>>

\* ... != nil: Logger.Println(err), carry on
ReAddFail ==
  /\ rpc = "readd" /\ "watch_not_readded" \notin Dev /\ wdisk[rev.f] = "absent"
  /\ wlost' = TRUE
  /\ rpc' = AfterReadd
  /\ UNCHANGED <<wdisk, wwatch, wq, wwr, wleft, rev, rnext, rsnap, rsnapx, wreg, wregx, wcb, wsnaps, whist>>

AfterRead(s) ==
  IF rev.op \in {"remove", "rename"} /\ "readd_after_read" \in Dev THEN "readd" ELSE "compile"

\* bundle.AddTemplateFile(soyfile.name) for the next file / for all files
ReadStep ==
  /\ rpc = "read"
  /\ IF "partial_reload" \in Dev
     THEN LET s == [f \in Files |-> IF f = rev.f THEN wdisk[f] ELSE InitDisk[f]] IN
          rsnap' = s /\ rnext' = NF + 1 /\ rpc' = AfterRead(s)
     ELSE IF ReadAtomic
     THEN rsnap' = wdisk /\ rnext' = NF + 1 /\ rpc' = AfterRead(wdisk)
     ELSE LET s == [rsnap EXCEPT ![rnext] = wdisk[rnext]] IN
          /\ rsnap' = s /\ rnext' = rnext + 1
          /\ rpc' = IF rnext = NF THEN AfterRead(s) ELSE "read"
  /\ UNCHANGED <<wdisk, wwatch, wq, wwr, wleft, rev, rsnapx, wreg, wregx, wcb, wlost, wsnaps, whist>>

\* bundle.Compile(): parse every file, run the registered parse passes
\* (bundle.parsepasses = b.parsepasses), CheckDataRefs, SetGlobals with the
\* globals carried over (AddGlobalsMap(b.globals)): a global that is not
\* defined is a compile error
Compile ==
  /\ rpc = "compile"
  /\ LET gl == IF "globals_dropped_on_recompile" \in Dev THEN "none" ELSE Glob
         compiles(f) == \/ rsnap[f] \in Valid
                        \/ rsnap[f] = "bad" /\ BadRef(f) /\ "datarefs_not_checked_on_recompile" \in Dev
         ok == (\A f \in Files : compiles(f)) /\ gl # "none"
     IN /\ rsnapx' = IF ok THEN [p |-> IF "passes_skipped_on_recompile" \in Dev THEN {} ELSE Passes,
                                 g |-> gl,
                                 m |-> "messages_not_processed_on_recompile" \notin Dev,
                                 src |-> rsnap]
                    ELSE NoX
        /\ rpc' = IF ~ok THEN "fail" ELSE IF "callback_after_swap" \in Dev THEN "swap" ELSE "cb"
  /\ UNCHANGED <<wdisk, wwatch, wq, wwr, wleft, rev, rnext, rsnap, wreg, wregx, wcb, wlost, wsnaps, whist>>

Finished == /\ rpc' = "idle" /\ rev' = NoEv /\ rnext' = 0 /\ rsnap' = NoSnap /\ rsnapx' = NoX /\ wcb' = NoCb /\ wsnaps' = {}

\* bundle.Compile() failed: Logger.Println(err); continue
Fail ==
  /\ rpc = "fail"
  /\ wreg' = IF "swap_on_error" \in Dev THEN [f \in Files |-> IF rsnap[f] \in Valid THEN rsnap[f] ELSE "none"] ELSE wreg
  /\ wregx' = wregx
  /\ Finished
  /\ UNCHANGED <<wdisk, wwatch, wq, wwr, wleft, wlost, whist>>

\* b.recompilationCallback(registry)
Callback ==
  /\ rpc = "cb"
  /\ wcb' = [n |-> wcb.n + 1, arg |-> rsnap, argx |-> rsnapx]
  /\ rpc' = IF "callback_after_swap" \in Dev THEN "logok" ELSE "swap"
  /\ UNCHANGED <<wdisk, wwatch, wq, wwr, wleft, rev, rnext, rsnap, rsnapx, wreg, wregx, wlost, wsnaps, whist>>

\* *reg = *registry
Swap ==
  /\ rpc = "swap"
  /\ wreg' = rsnap
  \* `*reg = *registry` copies the private source maps too; assigning only the
  \* exported fields leaves them describing the first compilation
  /\ wregx' = IF "source_maps_stale_after_swap" \in Dev THEN [rsnapx EXCEPT !.src = wregx.src] ELSE rsnapx
  /\ rpc' = IF "callback_after_swap" \in Dev THEN "cb" ELSE "logok"
  /\ UNCHANGED <<wdisk, wwatch, wq, wwr, wleft, rev, rnext, rsnap, rsnapx, wcb, wlost, wsnaps, whist>>

\* Logger.Printf("update successful (%v)", ev)
LogOK ==
  /\ rpc = "logok"
  /\ Finished
  /\ UNCHANGED <<wdisk, wwatch, wq, wwr, wleft, wreg, wregx, wlost, whist>>

Recompiler == Deliver \/ ReAddOK \/ ReAddFail \/ ReadStep \/ Compile \/ Fail \/ Callback \/ Swap \/ LogOK
WriterNext == \E f \in Files, v \in Writable, m \in AllMethods : WIntent(f, v, m)

Next == WriterNext \/ WStep \/ WDone \/ DropEvent \/ Observe \/ Recompiler

Spec == Init /\ [][Next]_vars
FairSpec == Spec /\ WF_vars(Recompiler) /\ WF_vars(WStep \/ WDone)

-----------------------------------------------------------------------------
(* properties *)

TypeOK ==
  /\ wdisk \in [Files -> Writable \cup {"empty", "absent"}]
  /\ wwatch \in [Files -> BOOLEAN]
  /\ Len(wq) <= MaxQ
  /\ \A i \in 1..Len(wq) : wq[i].f \in Files /\ wq[i].op \in {"write", "chmod", "remove", "rename"}
  /\ rpc \in {"idle", "readd", "read", "compile", "fail", "cb", "swap", "logok"}
  /\ wreg \in [Files -> Valid \cup {"none"}]
  /\ wleft \in 0..MaxWrites
  /\ \A f \in Files : wdisk[f] = "absent" => ~wwatch[f]
  /\ rpc = "idle" => (rev = NoEv /\ rsnap = NoSnap /\ rsnapx = NoX /\ wsnaps = {} /\ wcb = NoCb)

\* (a)
RegValid == AllValid(wreg)
\* (e) the registry in use has been through every registered parse pass, and
\* its templates are bound to the bundle's globals
PassesApplied == wregx.p = Passes
GlobalsBound == wregx.g = Glob
MessagesProcessed == wregx.m
SourceMapsFresh == wregx.src = wreg
\* a soyjs.Generator made once from the registry in use reads it at every call;
\* one that keeps what it generated per file name keeps showing the first compile
GenOutput == IF "generator_caches_per_file" \in Dev THEN InitDisk ELSE wreg
GeneratorCurrent == Quiet => GenOutput = wreg
Installing == rpc \in {"cb", "swap", "logok"}
PerFileFromDisk == Installing => \A f \in Files : \E s \in wsnaps : rsnap[f] = s[f]
SnapshotExisted == Installing => rsnap \in wsnaps
\* the registry is never older than what a file's only writer could explain:
\* a lone unwatched file always has its re-add pending, unless limitation 1
WatchPending ==
  \A f \in Files : ~wwatch[f] =>
     \/ wlost
     \/ \E i \in 1..Len(wq) : wq[i].f = f /\ wq[i].op \in {"remove", "rename"}
     \/ rpc \in {"readd"} /\ rev.f = f

\* (b)
IsFail == rpc = "fail" /\ rpc' = "idle"
IsSwap == rpc = "swap" /\ rpc' # "swap"
IsCallback == rpc = "cb" /\ rpc' # "cb"
IsLogOK == rpc = "logok" /\ rpc' = "idle"
FailKeepsRegistry == [][IsFail => wreg' = wreg]_vars
OnlySwapChangesRegistry == [][<<wreg, wregx>>' # <<wreg, wregx>> => (IsSwap /\ AllValid(rsnap) /\ wreg' = rsnap)]_vars

\* (c)
CallbackBeforeVisible == [][IsSwap => (wcb.n = 1 /\ wcb.arg = wreg' /\ wcb.argx = rsnapx)]_vars
CallbackOncePerSuccess == [][(IsCallback => wcb.n = 0) /\ (IsLogOK => (wcb.n = 1 /\ wcb.arg = wreg))]_vars
NoCallbackOnFail == [][IsFail => wcb.n = 0]_vars

\* (d)
QuiescentConsistent == (Quiet /\ DiskValid /\ ~wlost) => wreg = wdisk
LiveUnlessLost == <>[]((DiskValid /\ ~wlost) => wreg = wdisk)
LiveStrict == <>[](DiskValid => wreg = wdisk)
EventuallyQuiet == <>[](rpc = "idle" /\ wq = <<>>)

\* M2 export: one JSON document per observed history
EmitHist == (HistOn /\ whist # <<>> /\ LastObserved /\ Quiet) =>
              PrintT(ToJson([h |-> [i \in 1..Len(whist) |->
                 [f |-> whist[i].f, v |-> whist[i].v, m |-> whist[i].m,
                  obs |-> [j \in 1..NF |-> whist[i].obs[j]],
                  p |-> whist[i].ox.p, g |-> whist[i].ox.g, mp |-> whist[i].ox.m,
                  src |-> [j \in 1..NF |-> whist[i].ox.src[j]]]]]))
=============================================================================
