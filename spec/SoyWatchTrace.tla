---------------------------- MODULE SoyWatchTrace ----------------------------
(***************************************************************************)
(* Trace validation (M3) for XWATCH: every line of watch_trace.ndjson is   *)
(* ONE recorded run of the real recompiler against a temp directory,       *)
(*   [id |-> n, ev |-> << event, ... >>]                                   *)
(* with the events, in the order they were appended to the trace buffer    *)
(* under one mutex:                                                        *)
(*   [ev |-> "wbegin", f, v, m]  the harness is about to change file f to   *)
(*                               version v with method m (appended BEFORE  *)
(*                               the first system call)         = WIntent  *)
(*   [ev |-> "wend"]             all system calls of that write returned    *)
(*                                                               = WDone    *)
(*   [ev |-> "log", k |-> "ok"]        "update successful (..)"  = LogOK    *)
(*   [ev |-> "log", k |-> "fail"]      a compile/read error      = Fail     *)
(*   [ev |-> "log", k |-> "readdfail"] watcher.Add's bare errno  = ReAddFail*)
(*   [ev |-> "callback", vers, p, g, vis, visp, visg]  the callback ran;     *)
(*                               vers[f] = what template f of ITS argument  *)
(*                               renders, vis[f] = what template f renders  *)
(*                               through the Tofu at that moment (the       *)
(*                               registry in use)  = Callback /\ wreg = vis *)
(*                               p/g/m/src (vis..) = what those registries   *)
(*                               show: parse-pass tags, global value,       *)
(*                               m = "ok" iff every {msg} has the id of a   *)
(*                               fresh compile and renders its translation, *)
(*                               src[f] = the version whose line a failing  *)
(*                               render of file f's template reports        *)
(*   [ev |-> "quiesce", r]       the harness found the recompiler parked in *)
(*                               its select, fsnotify's reader parked in    *)
(*                               epoll_wait and the inotify queue empty     *)
(*                               (FIONREAD = 0), twice, with no log line in *)
(*                               between; r[f] = what template f renders    *)
(*                               through the Tofu, p = the parse-pass tags  *)
(*                               in that output, g = the global it prints   *)
(*                               m, src as above; js[f] = the version whose *)
(*                               JavaScript a long-lived soyjs.Generator    *)
(*                               returns for file f                         *)
(*                               = Quiet /\ wreg = r /\ wregx = [p,g,m,src]  *)
(*                                 /\ GenOutput = js                        *)
(* The steps nobody can see (WStep: the system calls themselves, Deliver,   *)
(* DropEvent, ReAddOK, ReadStep, Compile, Swap) are chosen by TLC.  A run is         *)
(* accepted iff SOME interleaving of hidden steps makes the recorded        *)
(* sequence a behaviour of SoyWatch (reference design, per-file reads).     *)
(*                                                                         *)
(* Reset: every run is an initial state (tix = its line, SoyWatch!Init),    *)
(* so thousands of runs are validated in one JVM; an accepted run ends in   *)
(* one canonical state and prints <<"ACCEPT", line, id>>.  Runs that print  *)
(* nothing were rejected; with Diag = TRUE every matched event is printed   *)
(* as <<"AT", line, position>> (the harness re-runs the rejected runs alone *)
(* to find the event no behaviour of the model can produce).                *)
(***************************************************************************)
EXTENDS SoyWatch

CONSTANT Diag

Traces == ndJsonDeserialize("watch_trace.ndjson")

VARIABLES tix, tpos
tvars == <<tix, tpos>>
allvars == <<vars, tix, tpos>>

TInit == /\ Init
         /\ tix \in 1..Len(Traces)
         /\ tpos = 1

THidden ==
  /\ tpos >= 1
  /\ WStep \/ DropEvent \/ Deliver \/ ReAddOK \/ ReadStep \/ Compile \/ Swap
  /\ UNCHANGED tvars

AsSnap(s) == [f \in Files |-> s[f]]
\* passes (a JSON array) and global value observed on a registry
AsX(ps, gv, mv, sv) == [p |-> {ps[i] : i \in 1..Len(ps)}, g |-> gv, m |-> (mv = "ok"), src |-> AsSnap(sv)]

TVisible ==
  /\ tpos >= 1 /\ tpos <= Len(Traces[tix].ev)
  /\ LET e == Traces[tix].ev[tpos] IN
       CASE e.ev = "wbegin"   -> WIntent(e.f, e.v, e.m)
         [] e.ev = "wend"     -> WDone
         [] e.ev = "log"      -> (CASE e.k = "ok" -> LogOK
                                    [] e.k = "fail" -> Fail
                                    [] e.k = "readdfail" -> ReAddFail)
         [] e.ev = "callback" -> /\ Callback
                                 /\ rsnap = AsSnap(e.vers) /\ rsnapx = AsX(e.p, e.g, e.m, e.src)
                                 /\ wreg = AsSnap(e.vis) /\ wregx = AsX(e.visp, e.visg, e.vism, e.vissrc)
         [] e.ev = "quiesce"  -> /\ Quiet /\ wreg = AsSnap(e.r) /\ wregx = AsX(e.p, e.g, e.m, e.src)
                                 /\ GenOutput = AsSnap(e.js) /\ UNCHANGED vars
  /\ tpos' = tpos + 1 /\ tix' = tix
  /\ Diag => PrintT(<<"AT", tix, tpos>>)

\* the whole run was matched: fold into one canonical accepting state
TAccept ==
  /\ tpos = Len(Traces[tix].ev) + 1
  /\ PrintT(<<"ACCEPT", tix, Traces[tix].id>>)
  /\ tpos' = 0 /\ tix' = tix
  /\ wdisk' = InitDisk /\ wwatch' = [f \in Files |-> TRUE] /\ wq' = <<>>
  /\ wwr' = IdleW /\ wleft' = MaxWrites
  /\ rpc' = "idle" /\ rev' = NoEv /\ rnext' = 0 /\ rsnap' = NoSnap /\ rsnapx' = NoX
  /\ wreg' = InitDisk /\ wregx' = FullX /\ wcb' = NoCb /\ wlost' = FALSE /\ wsnaps' = {} /\ whist' = <<>>

TNext == THidden \/ TVisible \/ TAccept
=============================================================================
