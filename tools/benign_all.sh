#!/bin/bash
# runs the quick tier of every check against every benign (property-preserving) patch: all must exit 0
cd "$(dirname "$0")/.."
ids=$(python3 -c "import json;print(' '.join(c['property_id'] for c in json.load(open('MANIFEST.json'))['checks']))")
for p in mutants/benign/*.diff; do bin/calibrate "$p" $ids 2>&1 | grep "^MUTANT" | cut -c1-220; done
