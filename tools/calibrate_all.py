#!/usr/bin/env python3
"""Runs bin/calibrate for the reverse of every fix commit against the property (or properties) whose check
found the defect (known_findings.json). Prints one line per (mutant, property)."""
import json, subprocess, os, sys, collections
ROOT = os.path.dirname(os.path.dirname(os.path.abspath(__file__)))
d = json.load(open(os.path.join(ROOT, "known_findings.json")))
by = collections.OrderedDict()
for f in d:
    if f["status"] == "fixed" and f.get("commit"):
        by.setdefault(f["commit"], [])
        if f["property"] not in by[f["commit"]]:
            by[f["commit"]].append(f["property"])
for c, props in by.items():
    p = os.path.join(ROOT, "mutants", "rev-%s.diff" % c)
    if not os.path.exists(p):
        print("CALIB %s: no reverse patch" % c, flush=True); continue
    r = subprocess.run([os.path.join(ROOT, "bin", "calibrate"), p] + props, capture_output=True, text=True)
    for l in (r.stdout + r.stderr).splitlines():
        if l.startswith("MUTANT"):
            print("CALIB " + l[:260], flush=True)
