#!/usr/bin/env python3
"""Regenerates the ledger and seeded-change tables of DESIGN.md (between markers) from
known_findings.json and seeded/*/meta.json."""
import json, glob, os, re
ROOT = os.path.dirname(os.path.dirname(os.path.abspath(__file__)))
def esc(s): return str(s).replace("|", "\\|").replace("\n", " ")
def findings():
    d = json.load(open(os.path.join(ROOT, "known_findings.json")))
    rows = ["| property | status | commit | signature (family / feature) | what failed on the pinned tree |", "|---|---|---|---|---|"]
    for f in sorted(d, key=lambda f: (f["property"], f["status"], f.get("commit", ""))):
        sig = f["signature"]
        rows.append("| %s | %s | %s | `%s / %s` | %s |" % (f["property"], f["status"], f.get("commit", "") or "—", esc(sig["family"]), esc(sig["feature"]), esc(f["what"])))
    return "\n".join(rows)
def seeds():
    rows = ["| seeded change | breaks | needs, to manifest | first run | now | how the check was strengthened |", "|---|---|---|---|---|---|"]
    def key(p):
        n = os.path.basename(os.path.dirname(p)); a, b = n.split("-"); return (a, b)
    for p in sorted(glob.glob(os.path.join(ROOT, "seeded", "*", "meta.json")), key=key):
        m = json.load(open(p))
        caught_by = ", ".join("%s" % r["check"] for r in m["quick_check_results"] if r["exit"] == 1) or "—"
        rows.append("| %s | %s | %s | %s | %s | %s |" % (m["name"], m["breaks_property"], esc(m.get("needs_to_manifest", "")),
            "missed" if m.get("initially_missed") else "caught", ("caught by " + caught_by) if caught_by != "—" else "MISSED", esc(m.get("strengthening", ""))))
    return "\n".join(rows)
p = os.path.join(ROOT, "DESIGN.md")
s = open(p).read()
for name, fn in (("findings", findings), ("seeds", seeds)):
    b, e = "<!-- BEGIN:%s -->" % name, "<!-- END:%s -->" % name
    if b in s:
        s = s[:s.index(b) + len(b)] + "\n" + fn() + "\n" + s[s.index(e):]
open(p, "w").write(s)
print("DESIGN.md tables regenerated")
