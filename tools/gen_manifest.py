#!/usr/bin/env python3
"""Regenerates /verif/MANIFEST.json from the table below (kept valid at all times)."""
import json, os, subprocess
ROOT = os.path.dirname(os.path.dirname(os.path.abspath(__file__)))

def hooks_commits():
    out = subprocess.run(["git", "-C", "/repo", "log", "--format=%h %s"], capture_output=True, text=True).stdout
    return [l.split()[0] for l in out.splitlines() if l.split(" ", 1)[1].startswith("verif hooks:")]

CHECKS = {
 "C01": ("model_checking",
   "TLA+ reference semantics of Soy expressions (SoyValues/SoyExpr) evaluated by TLC: TLC enumerates the operator x operand-type grid, every nesting of two precedence levels with a discriminating operand triple, data-reference chains x data shapes and function x argument classes (SoyExprCases) and the cases are replayed through the real compiler+renderer in minimal/full/redundant spellings; every syntactic position is exercised through SoyExec programs; seeded random typed trees are recorded from the real renderer and validated by TLC (C01Trace)",
   "oracle written from the language definition and the behaviour pinned by the repository's tests; cases the oracle marks Unspec (non-dyadic floats, collection equality, ill-typed arithmetic, 32-bit-unsafe integers) are not judged; Go generator/unparser trusted; one family (F9: floats printed in exponent form, whose digits the 32-bit-integer model cannot compute) is judged outside the TLA+ model by a necessary condition on the real output (a number literal of the language that reads back to exactly the value); globals are supplied both as a map and through a globals file (ParseGlobals)",
   "TLA+ executable semantics; TLC case enumeration replayed on the real code + TLC trace validation of recorded renders", "§5 C01"),
 "C02": ("model_checking",
   "SoyExec.tla is a small-step reference interpreter (scope frames, activations, capture buffers, writer); whole generated bundles (calls across namespaces, data=all/expr, params, lets, loops, switch, css, log, msg, autoescape modes) are rendered by the real code and TLC runs the reference machine on each recorded program (C02Trace), with FramesOK/InputUnchanged as invariants",
   "programs reaching an Unspec expression are not judged; failing renders compared on error only; generator trusted to produce well-formed bundles (rejections are tool errors)",
   "TLA+ small-step interpreter; TLC trace validation of recorded renders of generated bundles", "§5 C02"),
 "C17": ("model_checking",
   "SoySyntax.tla holds the operator table and a table-driven unparser; TLC checks that printing is injective on the family of every (parent operator, child operator, position) + literal/reference shapes, that the paren-less deviation is not, and exports the family; the real parser must read the full and minimal spellings as the spec's tree, and String() of every parsed tree (family + seeded random trees + print commands with directives) must parse back to the same tree",
   "tree comparison ignores positions and the spelling of string literals; FromAST conversion trusted",
   "TLA+ operator table + injectivity model check; TLC-enumerated family and random trees round-tripped through the real parser/printer", "§5 C17"),
 "C07": ("model_checking",
   "SoyCheck.tla states the data-reference rules declaratively with lexical block scoping; generated valid bundles and single-rule mutants injected at every applicable site (13 mutation kinds) are compiled by the real code and TLC evaluates SoyCheck.Verdict on each bundle (C07Trace); accepted bundles are rendered with all declared params supplied under the lookup hook (no lookup of a name nothing declares), and the reference interpreter checks the same clause as the invariant ConsequentOK (C07Exec)",
   "accept/reject only (never the message); shapes where the rules' wording is not decisive (a loop variable shadowing a param/let) are Unspec; runtime clause counts only names that no template declares",
   "declarative TLA+ rules; TLC verdict validation of recorded compilations of generated bundles and site-enumerated mutants; lookup hook", "§5 C07"),
 "C06": ("model_checking",
   "SoyRegistry.tla models registry construction, template lookup and the error-recovery path (TLC: RecoveryTotal holds for the reference design and is broken by the two named deviations that the pinned code had); SoyExprCases' Total invariant shows the expression oracle is total on the ill-typed operator/function grids, which are replayed - together with every directive x arity x value class, every command x value class, malformed globals files, range steps, duplicate template names and failures at call depth 1..4, and generated bundles with arbitrary JSON data - through Renderer.Execute / EvalExpr / ParseGlobals in worker subprocesses with a deadline and an address-space cap",
   "only the return obligation is judged (result or error, no panic, no hang); hangs must reproduce alone in a fresh worker; unbounded-but-finite work (huge ranges) is excluded",
   "TLA+ model of the recovery path + TLC-enumerated ill-typed grids replayed on the real entry points in isolated workers", "§5 C06"),
 "C12": ("fault_enumeration",
   "C12Model.tla (extends the reference interpreter SoyExec, whose writer component carries a fault plan) is model-checked over every fault plan of small programs (WriterLatch, PrefixOk, OkMeansComplete, ...; the deviation write_error_dropped must be caught and its counterexample is replayed); on the real code every write-call index and every byte capacity of the fault-free run of each template (systematic site families, features.soy, generated bundles) is injected with dead / fail-once / short-write writers; sampled cap-plans are validated against the model by TLC (C12Trace)",
   "write segmentation is never compared; bytes accepted after a recovering writer's failure are not judged; M3 restricted to ASCII programs",
   "TLA+ writer/fault-plan model checked by TLC + exhaustive fault enumeration on the real renderer + TLC trace validation of sampled faulted runs", "§5 C12"),
 "C15": ("model_checking",
   "SoyRawText.tla states the line-joining rule declaratively (A) and models the seven-flag normaliser as a per-character machine (B); TLC checks (B) = (A) and the rule's own invariants for every string up to a length bound over {a < > space tab CR LF e-acute} in every neighbour context and that 9 named deviations are caught; the same strings are rendered by the real code between every kind of neighbouring tag/comment and compared with (A) (weak obligations next to comments, where the repository's tests pin trimming); random longer strings are validated by TLC (SoyRawTextTrace)",
   "next to a comment only the obligations every reading supports are demanded; multi-byte runes are represented by ASCII stand-ins inside TLC",
   "declarative rule vs implementation-shaped machine equivalence model check; exhaustive short strings replayed on the real lexer/parser/renderer; TLC trace validation", "§5 C15"),
 "C03": ("model_checking",
   "SoyEscape.tla / SoyDirectives.tla / C03Sites.tla: the HTML escaper as a per-character transducer with its decoder, every built-in directive with its contract, the CancelsAutoescape table and the effective-mode function; TLC checks the contracts exhaustively on short strings over an adversarial alphabet and that the named deviations are caught (C03Model), exports the (site x autoescape attributes x directive chain) table, and validates sampled recorded renders (C03Trace); the real renderer is run on every print site kind x attribute combination x chain x adversarial values and judged by an oracle independent of the expected text: no raw special where escaping is on, and the output HTML-decodes to the value",
   "decoders are harness code specified by the spec's contracts; characters outside the model's KnownChars set are not judged",
   "TLA+ transducer/contract model checked by TLC + TLC-exported site/mode/chain table replayed on the real renderer + TLC trace validation", "§5 C03"),
 "C08": ("model_checking",
   "SoyBundle.tla: all histories of renders (3 templates x 3 data sets, one failing), JS generation and EvalExpr over one compiled bundle under 4 registry configurations; TLC checks Pure and HistoryIndependent, that the deviations obligatory_append / render_mutates_data break them, that SoyExec refines the functional run (SoyBundleRefine), and exports every history; each history is replayed on the real code with outputs compared step by step and a deep reflective digest of the registry, AST, extension registries and caller data compared before/after each step; random long histories are validated by TLC (SoyBundleTrace)",
   "package-level state outside the digest roots is visible only through outputs",
   "TLA+ history model checked by TLC + exhaustive TLC-exported histories replayed on the real code with structural digests", "§5 C08"),
 "C09": ("exploration",
   "SoyConcurrent.tla: two (three) per-render interpreter states over one shared registry, every interleaving of node steps explored by TLC (NonInterference; deviations obligatory_append / memo_cache break it); TLC-exported schedules are FORCED on the real code through the blocking VerifAt hook in a -race build and each goroutine's bytes compared with the sequential bytes; free-running stress (16 goroutines x 200 renders, concurrent soyjs.Write, concurrent compilation) under the race detector in a child process whose race log is parsed",
   "data-race freedom is observed by the Go race detector (compiler instrumentation), the specification supplies interleavings and expected bytes; free-running stress is schedule dependent",
   "TLA+ interleaving model checked by TLC; TLC schedules forced on the real code via a blocking hook, under the Go race detector", "§5 C09"),
 "C13": ("exploration",
   "SoyBundleDet.tla models compilation in insertion order, message naming and JS generation with the import block; TLC checks Deterministic and OrderInsensitive for the reference and exhibits two distinct outputs for the deviations imports_in_map_order / phnames_in_map_order / order_leaks; on the real code bundle shapes built to maximise internal map use are compiled and emitted 40 times in-process and in 3 fresh processes, under every file insertion order (<= 4 files), for ES5/ES6 formatters, with/without a message bundle, and all observables (accept/reject, error text, ids, names, rendered bytes, JS bytes) must agree",
   "agreement between runs is the oracle (no expected text); multi-error bundles may report any of their independent errors",
   "TLA+ determinism model checked by TLC + repeated/permuted compilation and emission of generated bundles across processes", "§5 C13"),
 "C14": ("translation_validation",
   "SoyJsLit.tla: the JS string escaper as a transducer and JsDenote; TLC checks JsDenote(JsStringEscape(s)) = s and safety on all short strings over an adversarial alphabet and that 4 deviations are caught; every literal position x adversarial string inside every command kind is compiled, translated by the JS generator for both formatters, and the translation validated by node: it parses (scripts and ES modules), defines one function per template under its qualified name, and calling it returns exactly the characters the Soy literal denotes; sampled emitted literals are validated by TLC (SoyJsLitTrace)",
   "node v20 is the JavaScript engine; the quoting of generated literals into Soy source is harness code",
   "TLA+ escaper/denotation model checked by TLC + translation validation of generated JavaScript by executing it", "§5 C14"),
 "C20": ("model_checking",
   "SoyData.tla: abstract Go values (all integer/float kinds, typed nils, interfaces, time, slices, maps, structs with embedded/unexported fields, marshalers) and Convert to the Soy value model, with the value laws (idempotence, equality symmetric and numeric across int/float, truthiness table incl. NaN, text a function); TLC checks the laws on all values of depth <= 2 and all pairs, that 5 deviations are caught, and exports descriptors with expected values; the harness constructs the real Go values (reflect.StructOf for generated shapes), runs data.New/NewWith under both option settings and compares, pushes all pairs through Equals/Truthy/String; random nested values are validated by TLC (SoyDataTrace)",
   "descriptor -> real Go value construction is harness code; kinds outside 'JSON-like' (chan, func, complex, non-string-keyed maps, uint64 >= 2^63) are recorded, not judged; every call into the library runs in worker processes; a conversion or value law that does not return is confirmed alone in a fresh worker, shrunk, and reported as no-return (violation)",
   "TLA+ conversion/value-law model checked by TLC + TLC-exported descriptors replayed on the real converter + TLC trace validation", "§5 C20"),
 "C16": ("model_checking",
   "SoyDirectives.tla / SoyEscape.tla: every encoding directive as a function with its contract (decoder, output alphabet, length bound; truncate under both readings of the limit); TLC checks the contracts on all short strings over an adversarial alphabet and that the named deviations are caught (C16Model), exports strings x arguments x single directives and pairs, and validates sampled results (C16Trace); the real Go directives are rendered and judged with independent decoders (percent-decoder, HTML text decoder, JS string-literal evaluation and JSON.parse in node); the JavaScript counterparts are judged as the code soyjs GENERATES for {$x|directive} run in node (plus the bare library functions for the contracts that are theirs alone)",
   "decoders are harness/node code implementing contracts the spec states; '+' for space in escapeUri is pinned by the repository's tests; Go-side renders run under a watchdog: a render in flight for more than 10 s is re-run alone in a fresh process and, if it does not return there either, reported as no-return (violation); every JS-side failure is confirmed in a fresh node process before it is judged; every Go directive with an implementation must have a JavaScript counterpart",
   "TLA+ directive contracts checked by TLC + independent decoders applied to real Go renders and to generated JavaScript", "§5 C16"),
 "C04": ("translation_validation",
   "every program (seeded random typed expressions, generated bundles with control flow/calls/params/lets/msg/globals/$ij/autoescape modes/directive chains, and systematic families for functions, directives, loop helpers, null-safe references and lets in untaken branches) is translated by the JS generator, the translation is executed by node, the Go renderer renders the same program, and TLC judges each recorded [program, go, js] line against the reference interpreter (C04Trace) with the common-subset predicate SoyCommon.InCommonSubset deciding which lines are judged and CanonRefs comparing reference spellings; SoyJsScope.tla model-checks JS static naming against SoyExec's dynamic scoping (4 deviations replayed)",
   "cases outside the common subset or Unspec in the reference are not judged; node v20 executes the generated code; documented Go/JS differences (round of negative halves, escapeUri/escapeJsString/json encodings, quote-reference reuse) are outside the subset",
   "translation validation: generated JavaScript executed and compared three-way (JS = Go = TLA+ reference) with the subset decided by the spec", "§5 C04"),
 "C10": ("model_checking",
   "SoyMsg.tla: message body -> parts, base-name derivation (UPPER_UNDERSCORE with the official word boundaries, tags, globals, XXX/NUM), the official placeholder-naming algorithm written over sequences, the placeholder string and MsgKey (what the id may depend on) with the 64-bit fingerprint uninterpreted; TLC checks over all bodies of <= 4 parts from a collision-prone pool that names are a function of the part sequence, equal expressions share a name, distinct ones never do, MsgKey is invariant under description/context and sensitive to text/structure/meaning, and that the map-order deviation makes names multi-valued; every exported body is compiled by the real code 50x in-process and in 3 fresh processes, alone and embedded, and names, placeholder string, id stability and id equality iff MsgKey equality are compared; ids are pinned by the repository's golden vectors and an independent transcription of the fingerprint routine",
   "the fingerprint's bit arithmetic is outside the TLA+ model (trusted: golden vectors + independent Go transcription)",
   "TLA+ naming/identity model checked by TLC + exported bodies compiled repeatedly across processes by the real code", "§5 C10"),
 "C11": ("model_checking",
   "SoyPO.tla: extraction (msgid, msgid_plural, id=/var= references), validation, identity/reversing/partial translation, loading, plural rules for 1/2/3-form locales and render-time substitution; TLC checks the round-trip laws on every PO-representable message of the pool and that 4 deviations are caught; on the real code the xgettext-soy binary (built from the tree) extracts from generated files, the PO output is parsed, translated, loaded with pomsg.Load and rendered by the Go renderer and - through soyjs Options.Messages - by generated JavaScript in node, all compared with the spec",
   "robfig/gettext/po (a dependency) parses the PO files; node executes the generated code",
   "TLA+ PO round-trip model checked by TLC + real extractor/loader/renderers (Go and generated JS) replaying exported messages", "§5 C11"),
 "C05": ("model_checking",
   "SoyLexer.tla: the scanner as a finite automaton over (control point x character class) with lazily chosen input, so TLC decides for inputs of every length Progress, NoSpin, NoCrash and, under weak fairness, termination; SoyLexParse.tla: scanner goroutines and parser frames over rendez-vous channels (ParserProgress, NoSendOnClosed, NoPanicEscapes, Terminates), refining the hook protocol SoyLexProto; every named deviation (css/header-param/string/comment/soydoc/literal EOF loops, switch ignoring unknown tokens, ...) must be caught; on the real code one input per transition of the model's state graph (EOF in every state), all pairs (thorough: triples) of a 105-entry tag dictionary in 31 contexts, every prefix of the test files, token deletions/duplications/swaps and random bytes are parsed in worker subprocesses: returns, no panic, scanner steps linear in the input; recorded hook traces are validated by TLC",
   "a hang is declared only by a probe in a fresh process (10 s watchdog, two identical stack samples, twice); 'proportional time' is approximated by a step bound of 12*len+64 on the scanner model, and on the real code by a scaling family (48 repeatable constructs at n/4n/32n, CPU time of fresh worker processes, ratio bound, re-measured; inconclusive measurements are not judged) - that family is a measurement, not decided by TLC",
   "TLA+ lexer automaton / lexer-parser protocol model checked by TLC + model-derived and dictionary inputs replayed in isolated workers + TLC validation of hook traces", "§5 C05"),
 "C18": ("model_checking",
   "SoyLexParse.tla / SoyLexProto.tla: NoLeak (when a parse entry point has returned every scanner has closed its channel or had its last item received) on every exit path of SoyFile, Expr and the nested quoted-expression parser; deviations expr_no_drain / quoted_no_drain / recover_no_drain / runtime_panic_in_frame must break it; on the real code every C05 input plus expressions with trailing tokens and errors inside quoted attribute expressions and globals files are parsed in sequences of 1000 per process: the hook trace must show close (or last item received) before return for every scanner, and independently the goroutine profile must return to baseline; sampled traces are validated by TLC",
   "the goroutine profile (a goroutine with a robfig/soy frame still present after the settle time and at the end-of-sequence poll) is the ground truth for a leak; the hook protocol attributes it to a scanner where it can; a build whose channel discipline differs from the rendez-vous protocol is reported in a NOTE (hook_protocol_out_of_step) and judged on the profile alone; Bundle.Compile/CompileToTofu and ParseGlobals are entry points too",
   "TLA+ protocol model checked by TLC + hook-trace conformance and goroutine-profile observation on the real parser", "§5 C18"),
 "C19": ("model_checking",
   "parse half: SoyLexParse.tla carries item positions (PosInInput; deviations error_uses_zero_item / quoted_pos_relative); generated valid files x 13 fault kinds x every line, the reported file/line must be the fault's; render half: SoyErrPos.tla models which node the error of a failing render is built from (PositionOK; 6 deviations: innermost frame, callee file, line from other source, call node not restored, source per namespace, source per file name) and exports every layout (0-2 enclosing blocks x 10 failing commands incl. Go run-time panics x call depth 0-3 in a second file x a third file with the entry file's namespace or name added before/after) with its source lines and the allowed line interval, replayed on the real renderer",
   "for unterminated constructs any line from the construct's first line to the end is accepted; for render errors any line on the path from the outermost enclosing command to the failing command",
   "TLA+ position models checked by TLC + fault injection at every line (parse) and TLC-exported layouts (render) replayed on the real code", "§5 C19"),
}

NOT_YET = {
 # property -> reason while a checker is not registered yet (kept current)
}

def main():
    props = [json.loads(l)["id"] for l in open(os.path.join(ROOT, "properties.jsonl"))]
    checks = []
    for pid in props:
        if pid not in CHECKS:
            continue
        level, text, note, tech, ref = CHECKS[pid]
        checks.append({
            "property_id": pid,
            "quick_cmd": f"bin/check {pid} quick",
            "thorough_cmd": f"bin/check {pid} thorough",
            "evidence_file": f"evidence/{pid}.json",
            "replay_cmd_template": f"bin/check {pid} quick --replay {{path}}",
            "engine": "check",
            "level_claimed": {"category": level, "text": text, "design_ref": "DESIGN.md " + ref},
            "level_note": note,
            "technique": tech,
        })
    na = [{"property_id": p, "reason": NOT_YET.get(p, "checker under construction in this round: no claim is made until it is registered (the TLA+ technique applies; see DESIGN.md §5)")}
          for p in props if p not in CHECKS]
    m = {
        "version": 1,
        "setup_cmd": "bin/setup",
        "hooks": {
            "guard": "verif",
            "enable": "checkers are built with `go build -tags verif` against `replace github.com/robfig/soy => /repo`",
            "baseline_off_cmd": "cd /repo && GOFLAGS=-mod=mod GOPROXY=off GOSUMDB=off GOTOOLCHAIN=local go test -vet=off -count=1 ./...",
            "source_commits": hooks_commits(),
            "add_only": True,
        },
        "engines": [{"name": "check", "path": "bin/check", "serves_properties": [c["property_id"] for c in checks],
                     "kind_free_text": "per-property Go checker (harness/cmd/cXX) that drives TLC on the TLA+ specs in spec/ and replays/records behaviours of the real robfig/soy code"}],
        "checks": checks,
        "not_applicable": na,
        "notes": "All checks: exit 0 held / 1 VIOLATION / 2 tool trouble. VERIF_SEED seeds all randomness; VERIF_TIER overrides the tier. known_findings.json lists fixed and open findings.",
    }
    json.dump(m, open(os.path.join(ROOT, "MANIFEST.json"), "w"), indent=1)
    print("MANIFEST.json:", len(checks), "checks,", len(na), "not yet claimed")

main()
