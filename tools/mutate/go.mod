module verif/tools/mutate

go 1.21
