// Command mutate enumerates first-order mutants of the robfig/soy library
// sources and emits each as a unified diff (paths relative to the repository
// root, so `git apply` works).
//
//	mutate -repo /repo -out /tmp/mut/diffs     writes <seq>.diff + index.jsonl, prints the count tables
//	mutate -repo /repo -id <id>                prints the diff of one mutant
//	mutate -repo /repo                         prints only the count tables
//
// Only the standard library is used (go/ast, go/parser, go/token); every
// mutant is ONE textual splice at token positions of the clean file, so the
// diff touches only the mutated lines. Whether a mutant type-checks is left to
// the compiler (stage A of tools/mutation_run.py calls those "stillborn").
//
// Operators (see the doc comment of each gen* function):
//
//	ROR  AOR  LCR  CONDNEG  CONST  STR  SDL  RET  RETNIL  SLICE  NILGUARD  ERRGUARD  CASE
//
// ids: <relative file>:<line>:<col>:<op>:<n>, deterministic (files in a fixed
// order, AST pre-order within a file, n counts the variants at one position).
package main

import (
	"crypto/sha1"
	"encoding/json"
	"flag"
	"fmt"
	"go/ast"
	"go/parser"
	"go/token"
	"os"
	"path/filepath"
	"sort"
	"strconv"
	"strings"
)

// the packages (directories relative to the repo root) whose files are mutated
var pkgDirs = []string{"ast", "data", "errortypes", "parse", "parsepasses", "soyhtml", "soyjs", "soymsg", "soymsg/pomsg", "template"}
var rootFiles = []string{"bundle.go", "globals.go"}

type mutant struct {
	ID     string `json:"id"`
	Seq    int    `json:"seq"`
	File   string `json:"file"`
	Line   int    `json:"line"`
	Col    int    `json:"col"`
	Op     string `json:"op"`
	Desc   string `json:"desc"`
	Func   string `json:"func,omitempty"`
	start  int
	end    int
	repl   string
	Before string `json:"before"`
	After  string `json:"after"`
}

type fileMut struct {
	rel  string
	src  []byte
	fset *token.FileSet
	f    *ast.File
	tf   *token.File
	muts []*mutant
	// counter of variants per (line, col, op)
	nth map[string]int
	// current enclosing function (for the index only)
	fn string
}

func (fm *fileMut) off(p token.Pos) int { return fm.tf.Offset(p) }

func (fm *fileMut) text(n ast.Node) string { return string(fm.src[fm.off(n.Pos()):fm.off(n.End())]) }

// add registers a mutant replacing src[start:end) with repl, positioned at pos.
func (fm *fileMut) add(op string, pos token.Pos, start, end int, repl, desc string) {
	p := fm.fset.Position(pos)
	key := fmt.Sprintf("%d:%d:%s", p.Line, p.Column, op)
	fm.nth[key]++
	m := &mutant{
		ID:   fmt.Sprintf("%s:%d:%d:%s:%d", fm.rel, p.Line, p.Column, op, fm.nth[key]),
		File: fm.rel, Line: p.Line, Col: p.Column, Op: op, Desc: desc, Func: fm.fn,
		start: start, end: end, repl: repl,
	}
	fm.muts = append(fm.muts, m)
}

func (fm *fileMut) replaceNode(op string, n ast.Node, repl, desc string) {
	fm.add(op, n.Pos(), fm.off(n.Pos()), fm.off(n.End()), repl, desc)
}

func (fm *fileMut) apply(m *mutant) []byte {
	out := make([]byte, 0, len(fm.src)+len(m.repl))
	out = append(out, fm.src[:m.start]...)
	out = append(out, m.repl...)
	out = append(out, fm.src[m.end:]...)
	return out
}

// ---------------------------------------------------------------------------
// operators

var rorTable = map[token.Token][]token.Token{
	token.LSS: {token.LEQ, token.GTR},
	token.LEQ: {token.LSS, token.GEQ},
	token.GTR: {token.GEQ, token.LSS},
	token.GEQ: {token.GTR, token.LEQ},
	token.EQL: {token.NEQ},
	token.NEQ: {token.EQL},
}

var aorTable = map[token.Token][]token.Token{
	token.ADD: {token.SUB},
	token.SUB: {token.ADD},
	token.MUL: {token.QUO},
	token.QUO: {token.MUL},
	token.REM: {token.MUL},
}

var aorAssign = map[token.Token]token.Token{
	token.ADD_ASSIGN: token.SUB_ASSIGN,
	token.SUB_ASSIGN: token.ADD_ASSIGN,
	token.MUL_ASSIGN: token.QUO_ASSIGN,
	token.QUO_ASSIGN: token.MUL_ASSIGN,
}

var lcrTable = map[token.Token]token.Token{token.LAND: token.LOR, token.LOR: token.LAND}

// genBinary: ROR (relational operator replacement: < <-> <=, > <-> >=, == <-> !=,
// < <-> >, <= <-> >=), AOR (+ <-> -, * <-> /, % -> *), LCR (&& <-> ||).
func (fm *fileMut) genBinary(e *ast.BinaryExpr) {
	s, en := fm.off(e.OpPos), fm.off(e.OpPos)+len(e.Op.String())
	for _, t := range rorTable[e.Op] {
		fm.add("ROR", e.OpPos, s, en, t.String(), fmt.Sprintf("%s -> %s", e.Op, t))
	}
	for _, t := range aorTable[e.Op] {
		if e.Op == token.ADD && (isStringLit(e.X) || isStringLit(e.Y)) {
			continue // string concatenation: `-` cannot compile
		}
		fm.add("AOR", e.OpPos, s, en, t.String(), fmt.Sprintf("%s -> %s", e.Op, t))
	}
	if t, ok := lcrTable[e.Op]; ok {
		fm.add("LCR", e.OpPos, s, en, t.String(), fmt.Sprintf("%s -> %s", e.Op, t))
	}
}

func isStringLit(e ast.Expr) bool {
	b, ok := e.(*ast.BasicLit)
	return ok && b.Kind == token.STRING
}

// genCondNeg: COND-NEG, the condition c of an if / for becomes !(c). A plain
// ==/!= comparison is left to ROR (the result would be the same mutant).
func (fm *fileMut) genCondNeg(cond ast.Expr, kind string) {
	if cond == nil {
		return
	}
	if b, ok := cond.(*ast.BinaryExpr); ok && (b.Op == token.EQL || b.Op == token.NEQ) {
		return
	}
	if u, ok := cond.(*ast.UnaryExpr); ok && u.Op == token.NOT {
		fm.replaceNode("CONDNEG", cond, fm.text(u.X), kind+" condition !x -> x")
		return
	}
	fm.replaceNode("CONDNEG", cond, "!("+fm.text(cond)+")", kind+" condition c -> !(c)")
}

// genConst: CONST, integer literal n -> n+1 and n-1 (this covers 0 <-> 1);
// STR, a short non-empty string literal -> "".
func (fm *fileMut) genLit(b *ast.BasicLit, skipStr bool) {
	switch b.Kind {
	case token.INT:
		n, err := strconv.ParseInt(b.Value, 0, 64)
		if err != nil {
			return
		}
		fm.replaceNode("CONST", b, strconv.FormatInt(n+1, 10), fmt.Sprintf("%s -> %d", b.Value, n+1))
		r := strconv.FormatInt(n-1, 10)
		if n-1 < 0 {
			r = "(" + r + ")"
		}
		fm.replaceNode("CONST", b, r, fmt.Sprintf("%s -> %d", b.Value, n-1))
	case token.STRING:
		if skipStr {
			return
		}
		v, err := strconv.Unquote(b.Value)
		if err != nil || v == "" || len(v) >= 12 {
			return
		}
		fm.replaceNode("STR", b, `""`, fmt.Sprintf("%s -> \"\"", b.Value))
	}
}

// deletable reports whether SDL applies to s: expression statements that are
// calls, assignments x = e / x op= e, inc/dec, break, continue.
func deletable(s ast.Stmt) (string, bool) {
	switch s := s.(type) {
	case *ast.ExprStmt:
		if _, ok := s.X.(*ast.CallExpr); ok {
			return "call", true
		}
	case *ast.AssignStmt:
		if s.Tok != token.DEFINE {
			return "assignment", true
		}
	case *ast.IncDecStmt:
		return "inc/dec", true
	case *ast.BranchStmt:
		if s.Tok == token.BREAK || s.Tok == token.CONTINUE {
			return s.Tok.String(), true
		}
	}
	return "", false
}

// genStmtList: SDL on the statements of a block / case body; NILGUARD and
// ERRGUARD on `if x == nil {...return}` / `if x != nil {...return}`.
func (fm *fileMut) genStmtList(list []ast.Stmt) {
	for _, s := range list {
		if kind, ok := deletable(s); ok {
			txt := oneLine(fm.text(s))
			fm.replaceNode("SDL", s, "", "delete "+kind+": "+txt)
		}
	}
}

func oneLine(s string) string {
	s = strings.Join(strings.Fields(s), " ")
	if len(s) > 70 {
		s = s[:67] + "..."
	}
	return s
}

func isNil(e ast.Expr) bool {
	id, ok := e.(*ast.Ident)
	return ok && id.Name == "nil"
}

func endsInReturn(b *ast.BlockStmt) bool {
	if len(b.List) == 0 {
		return false
	}
	_, ok := b.List[len(b.List)-1].(*ast.ReturnStmt)
	return ok
}

// genGuard: NILGUARD `if x == nil { ... return ... }` -> the condition is made
// false (the guard is gone); ERRGUARD the same for `if x != nil { ... return ... }`
// (the usual shape of error propagation). The operand stays in the condition
// so that a variable declared in the if's init statement is still used.
func (fm *fileMut) genGuard(s *ast.IfStmt) {
	b, ok := s.Cond.(*ast.BinaryExpr)
	if !ok || s.Else != nil || !endsInReturn(s.Body) {
		return
	}
	if !(isNil(b.X) || isNil(b.Y)) {
		return
	}
	switch b.Op {
	case token.EQL:
		fm.replaceNode("NILGUARD", s.Cond, "false && "+fm.text(s.Cond), "guard `if "+oneLine(fm.text(s.Cond))+" {...return}` never taken")
	case token.NEQ:
		fm.replaceNode("ERRGUARD", s.Cond, "false && "+fm.text(s.Cond), "guard `if "+oneLine(fm.text(s.Cond))+" {...return}` never taken")
	}
}

// genReturn: RET flips a returned bool literal; RETNIL replaces the returned
// value by nil in functions whose only result is an error.
func (fm *fileMut) genReturn(r *ast.ReturnStmt, ft *ast.FuncType) {
	for _, res := range r.Results {
		if id, ok := res.(*ast.Ident); ok {
			switch id.Name {
			case "true":
				fm.replaceNode("RET", id, "false", "return true -> false")
			case "false":
				fm.replaceNode("RET", id, "true", "return false -> true")
			}
		}
	}
	if ft != nil && ft.Results != nil && len(ft.Results.List) == 1 && len(ft.Results.List[0].Names) <= 1 && len(r.Results) == 1 {
		if id, ok := ft.Results.List[0].Type.(*ast.Ident); ok && id.Name == "error" && !isNil(r.Results[0]) {
			fm.replaceNode("RETNIL", r.Results[0], "nil", "return "+oneLine(fm.text(r.Results[0]))+" -> return nil")
		}
	}
}

// genSlice: SLICE, s[i:j]: low bound i -> i+1, high bound j -> j-1 (an absent
// bound is left alone).
func (fm *fileMut) genSlice(e *ast.SliceExpr) {
	if e.Low != nil {
		fm.replaceNode("SLICE", e.Low, fm.text(e.Low)+"+1", "low bound "+oneLine(fm.text(e.Low))+" -> +1")
	}
	if e.High != nil {
		fm.replaceNode("SLICE", e.High, fm.text(e.High)+"-1", "high bound "+oneLine(fm.text(e.High))+" -> -1")
	}
}

// genCases: CASE, delete one case clause of a switch / type switch (default
// included); for `case a, b:` drop one value.
func (fm *fileMut) genCases(body *ast.BlockStmt) {
	for _, st := range body.List {
		cc, ok := st.(*ast.CaseClause)
		if !ok {
			continue
		}
		label := "default"
		if cc.List != nil {
			label = "case " + oneLine(string(fm.src[fm.off(cc.List[0].Pos()):fm.off(cc.List[len(cc.List)-1].End())]))
		}
		fm.replaceNode("CASE", cc, "", "delete clause `"+label+"`")
		if len(cc.List) >= 2 {
			for i, v := range cc.List {
				var s, e int
				if i == 0 {
					s, e = fm.off(v.Pos()), fm.off(cc.List[1].Pos())
				} else {
					s, e = fm.off(cc.List[i-1].End()), fm.off(v.End())
				}
				fm.add("CASE", v.Pos(), s, e, "", "drop case value `"+oneLine(fm.text(v))+"`")
			}
		}
	}
}

// ---------------------------------------------------------------------------
// traversal


func (fm *fileMut) walk() {
	// struct tags and import paths are never mutated
	skip := map[*ast.BasicLit]bool{}
	for _, im := range fm.f.Imports {
		skip[im.Path] = true
	}
	ast.Inspect(fm.f, func(n ast.Node) bool {
		if f, ok := n.(*ast.Field); ok && f.Tag != nil {
			skip[f.Tag] = true
		}
		return true
	})
	var ftStack []*ast.FuncType
	var visit func(n ast.Node)
	visit = func(n ast.Node) {
		if n == nil {
			return
		}
		switch n := n.(type) {
		case *ast.FuncDecl:
			old := fm.fn
			fm.fn = n.Name.Name
			if n.Recv != nil && len(n.Recv.List) == 1 {
				fm.fn = strings.TrimPrefix(fm.text(n.Recv.List[0].Type), "*") + "." + n.Name.Name
			}
			ftStack = append(ftStack, n.Type)
			if n.Body != nil {
				visit(n.Body)
			}
			ftStack = ftStack[:len(ftStack)-1]
			fm.fn = old
			return
		case *ast.FuncLit:
			ftStack = append(ftStack, n.Type)
			visit(n.Body)
			ftStack = ftStack[:len(ftStack)-1]
			return
		case *ast.BinaryExpr:
			fm.genBinary(n)
		case *ast.BasicLit:
			fm.genLit(n, skip[n])
		case *ast.IfStmt:
			fm.genCondNeg(n.Cond, "if")
			fm.genGuard(n)
		case *ast.ForStmt:
			fm.genCondNeg(n.Cond, "for")
		case *ast.BlockStmt:
			fm.genStmtList(n.List)
		case *ast.CaseClause:
			fm.genStmtList(n.Body)
		case *ast.CommClause:
			fm.genStmtList(n.Body)
		case *ast.SwitchStmt:
			fm.genCases(n.Body)
		case *ast.TypeSwitchStmt:
			fm.genCases(n.Body)
		case *ast.ReturnStmt:
			var ft *ast.FuncType
			if len(ftStack) > 0 {
				ft = ftStack[len(ftStack)-1]
			}
			fm.genReturn(n, ft)
		case *ast.SliceExpr:
			fm.genSlice(n)
		case *ast.AssignStmt:
			if t, ok := aorAssign[n.Tok]; ok {
				s := fm.off(n.TokPos)
				fm.add("AOR", n.TokPos, s, s+len(n.Tok.String()), t.String(), fmt.Sprintf("%s -> %s", n.Tok, t))
			}
		}
		// children, in source order
		for _, c := range children(n) {
			visit(c)
		}
	}
	for _, d := range fm.f.Decls {
		visit(d)
	}
}

// children returns the direct child nodes of n in source order.
func children(n ast.Node) []ast.Node {
	var out []ast.Node
	first := true
	ast.Inspect(n, func(c ast.Node) bool {
		if first {
			first = false
			return true
		}
		if c != nil {
			out = append(out, c)
		}
		return false
	})
	return out
}

// ---------------------------------------------------------------------------
// unified diff of a single splice

func splitLines(b []byte) []string {
	s := string(b)
	lines := strings.SplitAfter(s, "\n")
	if len(lines) > 0 && lines[len(lines)-1] == "" {
		lines = lines[:len(lines)-1]
	}
	return lines
}

func unifiedDiff(rel string, a, b []byte) string {
	al, bl := splitLines(a), splitLines(b)
	p := 0
	for p < len(al) && p < len(bl) && al[p] == bl[p] {
		p++
	}
	s := 0
	for s < len(al)-p && s < len(bl)-p && al[len(al)-1-s] == bl[len(bl)-1-s] {
		s++
	}
	const ctx = 3
	from := p - ctx
	if from < 0 {
		from = 0
	}
	aEnd, bEnd := len(al)-s, len(bl)-s
	aTo, bTo := aEnd+ctx, bEnd+ctx
	if aTo > len(al) {
		aTo = len(al)
	}
	if bTo > len(bl) {
		bTo = len(bl)
	}
	var sb strings.Builder
	fmt.Fprintf(&sb, "diff --git a/%s b/%s\n--- a/%s\n+++ b/%s\n", rel, rel, rel, rel)
	aStart, bStart := from+1, from+1
	if aTo-from == 0 {
		aStart = from
	}
	if bTo-from == 0 {
		bStart = from
	}
	fmt.Fprintf(&sb, "@@ -%d,%d +%d,%d @@\n", aStart, aTo-from, bStart, bTo-from)
	w := func(prefix string, l string) {
		sb.WriteString(prefix)
		sb.WriteString(l)
		if !strings.HasSuffix(l, "\n") {
			sb.WriteString("\n\\ No newline at end of file\n")
		}
	}
	for i := from; i < p; i++ {
		w(" ", al[i])
	}
	for i := p; i < aEnd; i++ {
		w("-", al[i])
	}
	for i := p; i < bEnd; i++ {
		w("+", bl[i])
	}
	for i := aEnd; i < aTo; i++ {
		w(" ", al[i])
	}
	return sb.String()
}

// ---------------------------------------------------------------------------

func listFiles(repo string) []string {
	var files []string
	for _, f := range rootFiles {
		files = append(files, f)
	}
	for _, d := range pkgDirs {
		ents, err := os.ReadDir(filepath.Join(repo, d))
		if err != nil {
			fmt.Fprintln(os.Stderr, "mutate:", err)
			os.Exit(2)
		}
		var names []string
		for _, e := range ents {
			n := e.Name()
			if e.IsDir() || !strings.HasSuffix(n, ".go") || strings.HasSuffix(n, "_test.go") ||
				n == "verif_on.go" || n == "verif_off.go" || n == "doc.go" {
				continue
			}
			names = append(names, n)
		}
		sort.Strings(names)
		for _, n := range names {
			files = append(files, d+"/"+n)
		}
	}
	return files
}

func generated(src []byte) bool {
	head := src
	if len(head) > 2048 {
		head = head[:2048]
	}
	return strings.Contains(string(head), "Code generated") && strings.Contains(string(head), "DO NOT EDIT")
}

func main() {
	repo := flag.String("repo", "/repo", "root of the robfig/soy tree")
	out := flag.String("out", "", "directory to write <seq>.diff and index.jsonl to")
	id := flag.String("id", "", "print the diff of this mutant only")
	flag.Parse()

	var all []*mutant
	fms := map[string]*fileMut{}
	for _, rel := range listFiles(*repo) {
		src, err := os.ReadFile(filepath.Join(*repo, rel))
		if err != nil {
			fmt.Fprintln(os.Stderr, "mutate:", err)
			os.Exit(2)
		}
		if generated(src) {
			continue
		}
		fset := token.NewFileSet()
		f, err := parser.ParseFile(fset, rel, src, parser.ParseComments)
		if err != nil {
			fmt.Fprintln(os.Stderr, "mutate:", err)
			os.Exit(2)
		}
		fm := &fileMut{rel: rel, src: src, fset: fset, f: f, tf: fset.File(f.Pos()), nth: map[string]int{}}
		fm.walk()
		fms[rel] = fm
		// drop no-ops and duplicates (two operators producing the same file)
		seen := map[[20]byte]bool{sha1.Sum(src): true}
		for _, m := range fm.muts {
			mutated := fm.apply(m)
			h := sha1.Sum(mutated)
			if seen[h] {
				continue
			}
			seen[h] = true
			ls := splitLines(src)
			if m.Line-1 < len(ls) {
				m.Before = strings.TrimSpace(ls[m.Line-1])
			}
			ml := splitLines(mutated)
			if m.Line-1 < len(ml) {
				m.After = strings.TrimSpace(ml[m.Line-1])
			}
			all = append(all, m)
		}
	}
	for i, m := range all {
		m.Seq = i + 1
	}

	if *id != "" {
		for _, m := range all {
			if m.ID == *id {
				fm := fms[m.File]
				fmt.Print(unifiedDiff(m.File, fm.src, fm.apply(m)))
				return
			}
		}
		fmt.Fprintln(os.Stderr, "mutate: no such mutant:", *id)
		os.Exit(1)
	}

	if *out != "" {
		if err := os.MkdirAll(*out, 0o755); err != nil {
			fmt.Fprintln(os.Stderr, "mutate:", err)
			os.Exit(2)
		}
		idx, err := os.Create(filepath.Join(*out, "index.jsonl"))
		if err != nil {
			fmt.Fprintln(os.Stderr, "mutate:", err)
			os.Exit(2)
		}
		enc := json.NewEncoder(idx)
		enc.SetEscapeHTML(false)
		for _, m := range all {
			fm := fms[m.File]
			d := unifiedDiff(m.File, fm.src, fm.apply(m))
			if err := os.WriteFile(filepath.Join(*out, fmt.Sprintf("%05d.diff", m.Seq)), []byte(d), 0o644); err != nil {
				fmt.Fprintln(os.Stderr, "mutate:", err)
				os.Exit(2)
			}
			enc.Encode(m)
		}
		idx.Close()
	}

	// count tables
	ops := map[string]int{}
	files := map[string]int{}
	cell := map[string]map[string]int{}
	var opNames, fileNames []string
	for _, m := range all {
		if ops[m.Op] == 0 {
			opNames = append(opNames, m.Op)
		}
		if files[m.File] == 0 {
			fileNames = append(fileNames, m.File)
			cell[m.File] = map[string]int{}
		}
		ops[m.Op]++
		files[m.File]++
		cell[m.File][m.Op]++
	}
	sort.Strings(opNames)
	fmt.Printf("%-28s", "file")
	for _, o := range opNames {
		fmt.Printf(" %8s", o)
	}
	fmt.Printf(" %8s\n", "total")
	for _, f := range fileNames {
		fmt.Printf("%-28s", f)
		for _, o := range opNames {
			fmt.Printf(" %8d", cell[f][o])
		}
		fmt.Printf(" %8d\n", files[f])
	}
	fmt.Printf("%-28s", "TOTAL")
	for _, o := range opNames {
		fmt.Printf(" %8d", ops[o])
	}
	fmt.Printf(" %8d\n", len(all))
}
