#!/usr/bin/env python3
"""Systematic mutation testing of robfig/soy against (A) the repository's own
test-suite and (B) the property checks of /verif.

  tools/mutation_run.py gen                  build tools/mutate, write /tmp/mut/diffs + print the count tables
  tools/mutation_run.py order                print the stratified order (ids) used by stages A and B
  tools/mutation_run.py stageA [-j 8]        every mutant: apply, go build, go test -count=1 ./... (120 s)
  tools/mutation_run.py stageB [-j 3] [--limit N] [--deadline EPOCH] [--follow]
                                             repo-suite survivors, in the stratified order: the relevant checks (quick)
  tools/mutation_run.py summary              write mutation/SUMMARY.md (results.jsonl + triage.jsonl) and survivors/*.diff
  tools/mutation_run.py leg2 [-j 3] [--deadline EPOCH] [--dry]   second leg: re-run the first leg's GAP/MAP-MISS/NEAR-MISS survivors, then extend the sample
  tools/mutation_run.py recheck --check C19 --sig <text> --base <commit>   re-run false catches on another base (see recheck())
  tools/mutation_run.py demo <id> <x_test.go> run a demonstration test on the clean and on the mutated tree
  tools/mutation_run.py clean                remove the scratch worktrees and /tmp/mut

Everything is appended to /verif/mutation/results.jsonl, one JSON object per
(mutant, stage); a re-run skips what is already there (resumable). Nothing in
/repo or in the checkers is touched; the mutants live in scratch worktrees
/tmp/mut/wA<k>, /tmp/mut/wB<k>.
"""
import argparse, collections, hashlib, json, os, random, re, resource, shutil, signal, subprocess, sys, threading, time

VERIF = os.path.dirname(os.path.dirname(os.path.abspath(__file__)))
REPO = os.environ.get("MUT_REPO", "/repo")
SCRATCH = os.environ.get("MUT_SCRATCH", "/tmp/mut")
DIFFS = os.path.join(SCRATCH, "diffs")
OUT = os.path.join(VERIF, "mutation")
RESULTS = os.path.join(OUT, "results.jsonl")
TRIAGE = os.path.join(OUT, "triage.jsonl")
SEED = int(os.environ.get("MUT_SEED", "1"))
ENV = dict(os.environ, GOFLAGS="-mod=mod", GOPROXY="off", GOSUMDB="off", GOTOOLCHAIN="local")
TEST_TIMEOUT = 120     # go test -timeout (per test binary)
CHECK_TIMEOUT = 900    # outer limit for one bin/check run
MAX_LOAD = float(os.environ.get("MUT_MAX_LOAD", "40"))

# which checks are relevant for a mutated file (first match wins; order = order of running)
RELEVANCE = [
    (r"^parse/(lexer|parse|quote)\.go$", "C05 C18 C19 C17 C01 C15"),
    (r"^parse/rawtext\.go$", "C15 C05"),
    (r"^ast/.*\.go$", "C17 C10 C02 C07"),
    (r"^parsepasses/datarefcheck\.go$", "C07 C13"),
    (r"^parsepasses/globals\.go$", "C01 C07"),
    (r"^parsepasses/msgids\.go$", "C10 C11 C17"),
    (r"^soymsg/pomsg/.*\.go$", "C11"),
    (r"^soymsg/[^/]*\.go$", "C10 C11 C17"),
    (r"^template/.*\.go$", "C07 C19 C06 C13"),
    (r"^soyhtml/(exec|scope)\.go$", "C02 C01 C03 C06 C08 C12 C19"),
    (r"^soyhtml/(eval.*|funcs)\.go$", "C01 C04 C06"),
    (r"^soyhtml/directives\.go$", "C16 C03 C04"),
    (r"^soyhtml/(renderer|tofu)\.go$", "C06 C08 C09 C11"),
    (r"^soyjs/.*$", "C04 C14 C13 C16"),
    (r"^data/.*\.go$", "C20 C01 C04"),
    (r"^errortypes/.*\.go$", "C19"),
    (r"^(bundle|globals)\.go$", "C06 C13 C07 C01 C09"),  # C06 added in the second leg (4 MAP-MISS in the first)
]
# second leg: mutants inside the file-watching code of bundle.go also get the XWATCH extra (bin/extra watch quick)
WATCH_FUNCS = {"Bundle.WatchFiles", "Bundle.recompiler", "Bundle.AddTemplateFile"}


def relevant(m):
    """m: a mutant (dict with file and func) or a path"""
    path = m if isinstance(m, str) else m["file"]
    for pat, checks in RELEVANCE:
        if re.match(pat, path):
            cs = checks.split()
            if not isinstance(m, str) and path == "bundle.go" and m.get("func") in WATCH_FUNCS:
                cs = ["XWATCH"] + cs
            return cs
    return []


# ---------------------------------------------------------------------------
# bookkeeping

_lock = threading.Lock()


def load_index():
    with open(os.path.join(DIFFS, "index.jsonl")) as f:
        return [json.loads(l) for l in f if l.strip()]


def load_all():
    """(a, b, r): stage A, stage B (sample; field leg = 2 for the second leg), stage R (re-runs of first-leg survivors)"""
    a, b = load_results()
    r = {}
    if os.path.exists(RESULTS):
        with open(RESULTS) as f:
            for l in f:
                try:
                    x = json.loads(l)
                except ValueError:
                    continue
                if x.get("stage") == "R":
                    r[x["id"]] = x
    return a, b, r


def load_results():
    a, b = {}, {}
    if os.path.exists(RESULTS):
        with open(RESULTS) as f:
            for l in f:
                l = l.strip()
                if not l:
                    continue
                try:
                    r = json.loads(l)
                except ValueError:
                    continue  # a line being written by another process
                if r["stage"] == "A":
                    a[r["id"]] = r
                elif r["stage"] == "B":
                    b[r["id"]] = r
    return a, b


def record(r):
    with _lock:
        os.makedirs(OUT, exist_ok=True)
        with open(RESULTS, "a") as f:
            f.write(json.dumps(r, ensure_ascii=False, separators=(",", ":")) + "\n")


def stratified_order(index):
    """Round-robin over the strata (file, operator), each stratum shuffled with
    the fixed seed: every prefix of the order is a stratified sample."""
    strata = collections.OrderedDict()
    for m in index:
        strata.setdefault((m["file"], m["op"]), []).append(m)
    rnd = random.Random(SEED)
    keys = sorted(strata)
    for k in keys:
        rnd.shuffle(strata[k])
    order, r = [], 0
    while True:
        row = [strata[k][r] for k in keys if r < len(strata[k])]
        if not row:
            break
        rnd.shuffle(row)
        order.extend(row)
        r += 1
    return order


def run(cmd, cwd, timeout, env=ENV, limit_as=None):
    """Run cmd in its own process group; kill the group on timeout.
    Returns (rc, output, secs); rc = 'timeout' if killed."""
    def pre():
        os.setsid()
        if limit_as:
            resource.setrlimit(resource.RLIMIT_AS, (limit_as, limit_as))
    t0 = time.time()
    p = subprocess.Popen(cmd, cwd=cwd, env=env, stdout=subprocess.PIPE, stderr=subprocess.STDOUT, preexec_fn=pre)
    try:
        out, _ = p.communicate(timeout=timeout)
        rc = p.returncode
    except subprocess.TimeoutExpired:
        try:
            os.killpg(p.pid, signal.SIGKILL)
        except ProcessLookupError:
            pass
        out, _ = p.communicate()
        rc = "timeout"
    return rc, out.decode("utf-8", "replace"), round(time.time() - t0, 1)


def base_commit():
    """the commit of REPO the diffs were generated from (written by gen); every scratch worktree is made at it,
    so a commit added to REPO while a run is in progress does not change what is measured"""
    for p in (os.path.join(OUT, "BASE"), os.path.join(DIFFS, "BASE")):
        if os.path.exists(p):
            return open(p).read().strip()
    return "HEAD"


def worktree(name):
    wt = os.path.join(SCRATCH, name)
    if not os.path.isdir(wt):
        subprocess.run(["git", "-C", REPO, "worktree", "add", "-q", "--detach", wt, base_commit()], check=True)
    subprocess.run(["git", "-C", wt, "checkout", "-q", "--", "."], check=True)
    return wt


def apply(wt, m):
    subprocess.run(["git", "-C", wt, "checkout", "-q", "--", "."], check=True)
    p = subprocess.run(["git", "-C", wt, "apply", "--whitespace=nowarn", os.path.join(DIFFS, "%05d.diff" % m["seq"])],
                       capture_output=True, text=True)
    return p.returncode == 0, p.stderr


def wait_for_load(extra=0.0):
    while os.getloadavg()[0] > MAX_LOAD + extra:
        time.sleep(5)


# ---------------------------------------------------------------------------
# stage A

_deps_cache = {}


def test_targets(path):
    """(own, others): the package of `path` if it has tests, and the other packages of the module whose
    test binaries (transitively) contain that package. Equivalent to `go test ./...` for this mutant:
    a test binary that does not contain the mutated package cannot change its verdict."""
    if not _deps_cache:
        wt = worktree("w0")
        out = subprocess.run(["go", "list", "-json", "./..."], cwd=wt, env=ENV, capture_output=True, text=True, check=True).stdout
        dec, i, pk = json.JSONDecoder(), 0, {}
        while i < len(out):
            while i < len(out) and out[i].isspace():
                i += 1
            if i >= len(out):
                break
            o, i = dec.raw_decode(out, i)
            pk[o["ImportPath"]] = o
        mod = "github.com/robfig/soy"
        for ip, o in pk.items():
            if not (o.get("TestGoFiles") or o.get("XTestGoFiles")):
                continue
            clo = {ip} | set(o.get("Deps") or [])
            for t in (o.get("TestImports") or []) + (o.get("XTestImports") or []):
                clo.add(t)
                clo |= set((pk.get(t) or {}).get("Deps") or [])
            _deps_cache[ip] = {c for c in clo if c.startswith(mod)}
        _deps_cache["__mod__"] = mod
    mod = _deps_cache["__mod__"]
    d = os.path.dirname(path)
    ip = mod + ("/" + d if d else "")
    rel = lambda q: "./" + q[len(mod) + 1:] if q != mod else "."
    own = [rel(ip)] if ip in _deps_cache else []
    others = sorted(rel(q) for q, clo in _deps_cache.items() if q not in ("__mod__", ip) and ip in clo)
    return own, others

def stage_a_one(wt, m):
    ok, err = apply(wt, m)
    r = {"stage": "A", "id": m["id"], "op": m["op"], "file": m["file"], "line": m["line"]}
    if not ok:
        r.update(status="patch-failed", detail=err[:200])
        return r
    rc, out, secs = run(["go", "build", "./..."], wt, 300)
    if rc != 0:
        first = next((l for l in out.splitlines() if re.search(r"\.go:\d+", l)), out[:160])
        r.update(status="stillborn", detail=first[:160], secs=secs)
        return r
    # The repository's tests for the mutated package and for every package whose tests (transitively)
    # depend on it; the mutated package's own tests first, the dependants only if those pass.
    # 6 GiB of address space per process: a mutant that allocates without end dies instead of taking the box down.
    own, others = test_targets(m["file"])
    rc, out = 0, ""
    for group in (own, others):
        if not group:
            continue
        rc, out, secs2 = run(["go", "test", "-count=1", "-vet=off", "-timeout", "%ds" % TEST_TIMEOUT] + group, wt,
                             TEST_TIMEOUT * 4, limit_as=6 << 30)
        secs += secs2
        if rc != 0:
            break
    if rc == 0:
        r.update(status="survived-repo-tests", secs=round(secs, 1))
        return r
    failed = re.findall(r"^(?:FAIL|---\s+FAIL:)\s+(\S+)", out, re.M)
    pk = [x for x in re.findall(r"^FAIL\s+(\S+)", out, re.M) if "/" in x]
    how = "fail"
    if rc == "timeout" or "test timed out" in out:
        how = "timeout"
    elif "[build failed]" in out or "[setup failed]" in out:
        how = "test-build-failed"
    elif re.search(r"^panic:|fatal error:", out, re.M):
        how = "panic"
    tests = re.findall(r"^\s*--- FAIL: (\S+)", out, re.M)
    r.update(status="killed-by-repo-tests", how=how, pkgs=[p.replace("github.com/robfig/soy", ".") for p in pk][:6],
             first_test=(tests[0] if tests else ""), secs=round(secs, 1))
    return r


def stage_a(args):
    index = load_index()
    done, _ = load_results()
    todo = [m for m in stratified_order(index) if m["id"] not in done]
    print("stage A: %d mutants, %d already done, %d to do, %d workers" % (len(index), len(done), len(todo), args.j), flush=True)
    it = iter(todo)
    itlock = threading.Lock()
    counts = collections.Counter()
    t0 = time.time()
    test_targets("bundle.go")  # fill the dependency table before the workers start

    def worker(k):
        wt = worktree("wA%d" % k)
        while True:
            with itlock:
                m = next(it, None)
            if m is None:
                break
            wait_for_load(10)  # stage A is light; only back off when the box is overloaded
            try:
                r = stage_a_one(wt, m)
            except Exception as e:  # noqa
                r = {"stage": "A", "id": m["id"], "op": m["op"], "file": m["file"], "line": m["line"], "status": "runner-error", "detail": str(e)[:200]}
            record(r)
            with itlock:
                counts[r["status"]] += 1
                n = sum(counts.values())
                if n % 100 == 0:
                    print("  A %d/%d  %s  %.0fs load=%.1f" % (n, len(todo), dict(counts), time.time() - t0, os.getloadavg()[0]), flush=True)
        subprocess.run(["git", "-C", wt, "checkout", "-q", "--", "."])

    ts = [threading.Thread(target=worker, args=(k,)) for k in range(args.j)]
    for t in ts:
        t.start()
    for t in ts:
        t.join()
    print("stage A done:", dict(counts), flush=True)


# ---------------------------------------------------------------------------
# stage B

def run_check(wt, cid):
    env = dict(ENV, VERIF_REPO=wt, VERIF_NOEVIDENCE="1")
    cmd = [os.path.join(VERIF, "bin", "extra"), "watch", "quick"] if cid == "XWATCH" else [os.path.join(VERIF, "bin", "check"), cid, "quick"]
    rc, out, secs = run(cmd, VERIF, CHECK_TIMEOUT, env=env)
    lines = out.splitlines()
    sig = ""
    nviol = 0
    for i, l in enumerate(lines):
        if l.startswith("VIOLATION"):
            nviol += 1
            if not sig:
                nxt = lines[i + 1] if i + 1 < len(lines) else ""
                sig = (re.sub(r"\s*replay=\S+", "", l)[:160] + " | " + nxt.strip()[:200]).strip()
    if rc == "timeout":
        rc = 124
    if rc not in (0, 1) and not sig:
        te = [l for l in lines if "TOOL-ERROR" in l or "tool error" in l.lower() or l.startswith("panic:") or l.startswith("fatal error:")]
        sig = (te[0] if te else (lines[-1] if lines else ""))[:300]
    return {"check": cid, "exit": rc, "secs": secs, "violations": nviol, "sig": sig}


def stage_b_one(wt, m, keep=None, start_at=None):
    """keep/start_at: re-run from check start_at on, keeping the records `keep` of the checks before it"""
    ok, err = apply(wt, m)
    r = {"stage": "B", "id": m["id"], "op": m["op"], "file": m["file"], "line": m["line"], "checks": list(keep or [])}
    if not ok:
        r.update(status="patch-failed", detail=err[:200])
        return r
    trouble = [c["check"] for c in r["checks"] if c["exit"] not in (0, 1)]
    todo = relevant(m)
    if start_at:
        todo = todo[todo.index(start_at):]
    for cid in todo:
        wait_for_load()
        c = run_check(wt, cid)
        if c["exit"] not in (0, 1):  # tool trouble: once more
            c["retried"] = True
            first = c
            c = run_check(wt, cid)
            c["retried"] = True
            c["first_attempt"] = {"exit": first["exit"], "sig": first["sig"][:200]}
        r["checks"].append(c)
        if c["exit"] == 1:
            r.update(status="caught", caught_by=cid, sig=c["sig"])
            if trouble:
                r["tool_trouble"] = trouble
            return r
        if c["exit"] != 0:
            trouble.append(cid)
    if trouble:
        r.update(status="tool-trouble", tool_trouble=trouble)
    else:
        r.update(status="survivor")
    return r


def stage_b(args):
    index = load_index()
    order = stratified_order(index)
    counts = collections.Counter()
    started = set()
    lock = threading.Lock()
    t0 = time.time()
    state = {"n": 0}

    def next_mutant():
        """earliest mutant of the stratified order that survived stage A and has no stage-B record"""
        while True:
            a, b = load_results()
            with lock:
                if args.limit and len(b) + len(started - set(b)) >= args.limit:
                    return None
                if args.deadline and time.time() > args.deadline:
                    return None
                for m in order:
                    ra = a.get(m["id"])
                    if ra and ra["status"] == "survived-repo-tests" and m["id"] not in b and m["id"] not in started:
                        started.add(m["id"])
                        return m
                if not args.follow or len(a) >= len(index):
                    return None
            time.sleep(20)

    def worker(k):
        wt = worktree("wB%d" % k)
        while True:
            m = next_mutant()
            if m is None:
                break
            try:
                r = stage_b_one(wt, m)
            except Exception as e:  # noqa
                r = {"stage": "B", "id": m["id"], "op": m["op"], "file": m["file"], "line": m["line"], "status": "runner-error", "detail": str(e)[:200]}
            record(r)
            with lock:
                counts[r["status"]] += 1
                state["n"] += 1
                print("  B %d %-45s %-12s %s  %.0fs load=%.1f" % (state["n"], m["id"], r["status"], r.get("caught_by", ""),
                                                                 time.time() - t0, os.getloadavg()[0]), flush=True)
        subprocess.run(["git", "-C", wt, "checkout", "-q", "--", "."])

    ts = [threading.Thread(target=worker, args=(k,)) for k in range(args.j)]
    for t in ts:
        t.start()
        time.sleep(7)
    for t in ts:
        t.join()
    print("stage B done:", dict(counts), flush=True)


# ---------------------------------------------------------------------------
# second leg

COMMAND_NODES = set("""SoyFileNode ListNode RawTextNode NamespaceNode TemplateNode TypeNode HeaderParamNode SoyDocNode
SoyDocParamNode LiteralNode CssNode LogNode DebuggerNode LetValueNode LetContentNode IdentNode MsgNode MsgPlaceholderNode
MsgHtmlTagNode MsgPluralNode MsgPluralCaseNode CallNode CallParamValueNode CallParamContentNode IfNode IfCondNode
SwitchNode SwitchCaseNode ForNode""".split())
PRIORITY = [r"^bundle\.go$", r"^soyjs/funcs\.go$", r"^soyjs/exec\.go$", r"^soyhtml/exec\.go$", r"^soyhtml/funcs\.go$",
            r"^data/value\.go$", r"^parse/parse\.go$", r"^parsepasses/", r"^template/registry\.go$", r"^soymsg/"]


def known_equivalent(m):
    """families the first leg showed to be equivalent; not sampled again"""
    f = m.get("func") or ""
    if m["file"] == "ast/node.go" and f.endswith(".String") and f.split(".")[0] in COMMAND_NODES:
        return "String() of a command node (outside C17, used nowhere else)"
    if m["file"] == "soyjs/funcs.go" and m["op"] == "CONST" and "[]int{" in m.get("before", ""):
        return "soyjs.Func.ValidArgLengths is dead data"
    return ""


def leg2_order(index, a, b):
    """repo-suite survivors without a stage-B record, one per stratum (file, operator) per round; the strata
    with the fewest stage-B records so far come first, within one level the priority files first"""
    sampled = collections.Counter()
    byid = {m["id"]: m for m in index}
    for i in b:
        if i in byid:
            sampled[(byid[i]["file"], byid[i]["op"])] += 1
    rnd = random.Random(SEED + 1)
    pend = collections.defaultdict(list)
    for m in index:
        ra = a.get(m["id"])
        if ra and ra["status"] == "survived-repo-tests" and m["id"] not in b and not known_equivalent(m):
            pend[(m["file"], m["op"])].append(m)
    for k in sorted(pend):
        rnd.shuffle(pend[k])
    prio = lambda k: 0 if any(re.match(p, k[0]) for p in PRIORITY) else 1
    order = []
    level = dict((k, sampled[k]) for k in pend)
    while any(pend.values()):
        lv = min(level[k] for k in pend if pend[k])
        row = [k for k in sorted(pend) if pend[k] and level[k] == lv]
        rnd.shuffle(row)
        row.sort(key=prio)
        for k in row:
            order.append(pend[k].pop())
            level[k] += 1
    return order


def leg2(args):
    index = load_index()
    byid = {m["id"]: m for m in index}
    a, b, r = load_all()
    triage = {}
    if os.path.exists(TRIAGE):
        for l in open(TRIAGE):
            if l.strip():
                t = json.loads(l)
                triage[t["id"]] = t
    # (1) first-leg survivors to run again against the current checkers
    rerun = []
    for i, rb in b.items():
        if rb.get("leg") == 2 or rb["status"] not in ("survivor", "tool-trouble") or i not in byid or i in r:
            continue
        t = triage.get(i, {})
        cls = t.get("class", "")
        if cls in ("GAP", "GAP-CLOSED", "MAP-MISS") or "NEAR-MISS" in t.get("why", "") or \
           (byid[i]["file"] in ("bundle.go", "globals.go") and cls != "EQUIVALENT"):
            rerun.append(byid[i])
    ext = leg2_order(index, a, b)
    print("leg 2: %d first-leg survivors to re-run, %d candidates for the extension" % (len(rerun), len(ext)), flush=True)
    if args.dry:
        for m in rerun:
            print("R", m["id"], " ".join(relevant(m)))
        for m in ext[:400]:
            print("B", m["id"])
        return
    jobs = [("R", m) for m in rerun] + [("B", m) for m in ext]
    it = iter(jobs)
    lock = threading.Lock()
    t0 = time.time()
    counts = collections.Counter()

    def worker(k):
        wt = worktree("wL%d" % k)
        while True:
            with lock:
                job = next(it, None)
                if job and job[0] == "B" and args.deadline and time.time() > args.deadline:
                    job = None
            if job is None:
                break
            stage, m = job
            try:
                rec = stage_b_one(wt, m)
            except Exception as e:  # noqa
                rec = {"id": m["id"], "op": m["op"], "file": m["file"], "line": m["line"], "status": "runner-error", "detail": str(e)[:200], "checks": []}
            rec["stage"] = stage
            rec["leg"] = 2
            record(rec)
            with lock:
                counts[(stage, rec["status"])] += 1
                print("  %s %-45s %-12s %-6s %.0fs load=%.1f" % (stage, m["id"], rec["status"], rec.get("caught_by", ""), time.time() - t0, os.getloadavg()[0]), flush=True)
        subprocess.run(["git", "-C", wt, "checkout", "-q", "--", "."])

    ts = [threading.Thread(target=worker, args=(k,)) for k in range(args.j)]
    for t in ts:
        t.start()
        time.sleep(5)
    for t in ts:
        t.join()
    print("leg 2 done:", dict(counts), flush=True)


def recheck(args):
    """Re-run, on worktrees at another commit of REPO (--base), the mutants that a check 'caught' with a
    signature the unmodified tree shows as well (--check, --sig): the catch says nothing about the mutant.
    Happens when a checker is strengthened while a run is in progress and the defect it then finds is fixed in
    REPO after the run's base commit. The checks before --check keep their records; --check and the following
    ones run again; the new stage-B line replaces the old one (the last line of an id wins)."""
    index = {m["id"]: m for m in load_index()}
    _, b = load_results()
    todo = [r for r in b.values() if r.get("caught_by") == args.check and args.sig in r.get("sig", "") and not r.get("rebased_on")]
    print("recheck: %d mutants" % len(todo), flush=True)
    it = iter(todo)
    lock = threading.Lock()

    def worker(k):
        wt = os.path.join(SCRATCH, "wC%d" % k)
        if not os.path.isdir(wt):
            subprocess.run(["git", "-C", REPO, "worktree", "add", "-q", "--detach", wt, args.base], check=True)
        while True:
            with lock:
                old = next(it, None)
            if old is None:
                break
            m = index[old["id"]]
            keep = []
            for c in old["checks"]:
                if c["check"] == args.check:
                    break
                keep.append(c)
            r = stage_b_one(wt, m, keep=keep, start_at=args.check)
            r["rebased_on"] = args.base
            r["replaces"] = {"caught_by": args.check, "sig": old.get("sig", "")[:120]}
            record(r)
            print("  R %-45s %-12s %s" % (m["id"], r["status"], r.get("caught_by", "")), flush=True)
        subprocess.run(["git", "-C", wt, "checkout", "-q", "--", "."])

    ts = [threading.Thread(target=worker, args=(k,)) for k in range(args.j)]
    for t in ts:
        t.start()
        time.sleep(5)
    for t in ts:
        t.join()


# ---------------------------------------------------------------------------

def gen(args):
    os.makedirs(SCRATCH, exist_ok=True)
    subprocess.run(["go", "build", "-o", os.path.join(SCRATCH, "mutate"), "."], cwd=os.path.join(VERIF, "tools", "mutate"), env=ENV, check=True)
    if os.path.isdir(DIFFS):
        shutil.rmtree(DIFFS)
    # enumerate from a clean checkout of HEAD (not from REPO's working tree) and remember the commit
    head = subprocess.run(["git", "-C", REPO, "rev-parse", "--short", "HEAD"], capture_output=True, text=True, check=True).stdout.strip()
    os.makedirs(DIFFS)
    os.makedirs(OUT, exist_ok=True)
    if not os.path.exists(RESULTS) or not os.path.exists(os.path.join(OUT, "BASE")):
        open(os.path.join(OUT, "BASE"), "w").write(head + "\n")  # a new run: pin it to the current HEAD
    head = open(os.path.join(OUT, "BASE")).read().strip()  # a resumed run keeps its base
    open(os.path.join(DIFFS, "BASE"), "w").write(head + "\n")
    wt = worktree("w0")
    subprocess.run([os.path.join(SCRATCH, "mutate"), "-repo", wt, "-out", DIFFS], check=True)


def demo(args):
    """Run a demonstration test against the clean tree and against the mutated tree:
    a GAP demo must pass on the first and fail on the second."""
    index = {m["id"]: m for m in load_index()}
    m = index[args.id]
    wt = worktree("wT%d" % os.getpid())
    try:
        src = open(args.test).read()
        pkg = re.search(r"^package (\w+)", src, re.M).group(1)
        d = args.dir if args.dir is not None else {"soy": ".", "soy_test": ".", "pomsg": "soymsg/pomsg"}.get(pkg, pkg.replace("_test", ""))
        dst = os.path.join(wt, d, "zz_mutation_demo_test.go")
        name = re.search(r"func (Test\w+)", src).group(1)
        for label, mutated in (("clean", False), ("mutated", True)):
            if mutated:
                ok, err = apply(wt, m)
                if not ok:
                    print("patch failed", err)
                    return
            open(dst, "w").write(src)
            rc, out, secs = run(["go", "test", "-count=1", "-vet=off", "-timeout", "60s"] + (["-v"] if args.v else []) + ["-run", "^" + name + "$", "./" + d], wt, 200)
            print("%s tree: %s" % (label, "PASS" if rc == 0 else "FAIL (rc=%s)" % rc))
            if rc != 0 or args.v:
                print("\n".join("    " + l for l in out.splitlines()[:args.lines]))
    finally:
        subprocess.run(["git", "-C", REPO, "worktree", "remove", "--force", wt])


def clean(args):
    if os.path.isdir(SCRATCH):
        for d in os.listdir(SCRATCH):
            p = os.path.join(SCRATCH, d)
            if os.path.exists(os.path.join(p, ".git")):
                subprocess.run(["git", "-C", REPO, "worktree", "remove", "--force", p])
        shutil.rmtree(SCRATCH, ignore_errors=True)
    subprocess.run(["git", "-C", REPO, "worktree", "prune"])


def main():
    ap = argparse.ArgumentParser()
    sub = ap.add_subparsers(dest="cmd", required=True)
    sub.add_parser("gen")
    sub.add_parser("order")
    a = sub.add_parser("stageA")
    a.add_argument("-j", type=int, default=8)
    b = sub.add_parser("stageB")
    b.add_argument("-j", type=int, default=3)
    b.add_argument("--limit", type=int, default=0, help="stop when this many mutants have a stage-B record")
    b.add_argument("--deadline", type=float, default=0, help="epoch seconds after which no new mutant is started")
    b.add_argument("--follow", action="store_true", help="keep waiting for stage A to produce survivors")
    l2 = sub.add_parser("leg2")
    l2.add_argument("-j", type=int, default=3)
    l2.add_argument("--deadline", type=float, default=0)
    l2.add_argument("--dry", action="store_true")
    rc = sub.add_parser("recheck")
    rc.add_argument("--check", required=True)
    rc.add_argument("--sig", required=True)
    rc.add_argument("--base", required=True)
    rc.add_argument("-j", type=int, default=3)
    sub.add_parser("summary")
    d = sub.add_parser("demo")
    d.add_argument("id")
    d.add_argument("test", help="a _test.go file with one Test function")
    d.add_argument("--dir", default=None, help="package directory (default: derived from the package clause)")
    d.add_argument("-v", action="store_true")
    d.add_argument("--lines", type=int, default=25)
    sub.add_parser("clean")
    args = ap.parse_args()
    if args.cmd == "gen":
        gen(args)
    elif args.cmd == "order":
        for m in stratified_order(load_index()):
            print(m["id"])
    elif args.cmd == "stageA":
        stage_a(args)
    elif args.cmd == "stageB":
        stage_b(args)
    elif args.cmd == "summary":
        import mutation_summary
        mutation_summary.main2()
    elif args.cmd == "leg2":
        leg2(args)
    elif args.cmd == "recheck":
        recheck(args)
    elif args.cmd == "demo":
        demo(args)
    elif args.cmd == "clean":
        clean(args)


if __name__ == "__main__":
    sys.path.insert(0, os.path.dirname(os.path.abspath(__file__)))
    main()
