#!/bin/bash
# tools/mutation_run.sh [all|gen|stageA|stageB|summary|clean] [options passed on]
#
# Systematic mutation testing of /repo (robfig/soy) against the repository's own
# tests (stage A) and the /verif property checks (stage B). See
# mutation/SUMMARY.md, section "How to re-run". Resumable: every result is a line
# of mutation/results.jsonl; a mutant that has a line for a stage is skipped.
#
#   tools/mutation_run.sh all                 gen + stageA (-j 8) + stageB (-j 3) + summary
#   tools/mutation_run.sh stageB --limit 400  only stage B, stop after 400 stage-B records
#   MUT_SEED=2 tools/mutation_run.sh all      another stratified order (delete results.jsonl first)
#
# Environment: MUT_REPO (/repo), MUT_SCRATCH (/tmp/mut), MUT_SEED (1), MUT_MAX_LOAD (40).
set -eu
cd "$(dirname "$0")/.."
export GOFLAGS=-mod=mod GOPROXY=off GOSUMDB=off GOTOOLCHAIN=local
cmd="${1:-all}"; [ $# -gt 0 ] && shift
case "$cmd" in
  all)
    python3 tools/mutation_run.py gen
    python3 tools/mutation_run.py stageA -j 8
    python3 tools/mutation_run.py stageB -j 3 "$@"
    python3 tools/mutation_run.py summary
    ;;
  gen|order|stageA|stageB|summary|demo|clean)
    [ "$cmd" = gen ] || [ -d "${MUT_SCRATCH:-/tmp/mut}/diffs" ] || python3 tools/mutation_run.py gen >/dev/null
    python3 tools/mutation_run.py "$cmd" "$@"
    ;;
  *) sed -n 2,16p "$0"; exit 2 ;;
esac
